package mycheck

import (
	"errors"
	"fmt"
	"strings"

	"verif/sess"
)

// Client is one application connection through the real Acra MySQL proxy whose database end is
// answered by a scripted DB.
type Client struct {
	S  *sess.MySession
	DB *DB
	// Transitions counts the lock-step exchanges executed
	Transitions int
}

// Open starts a session of identity id (scripted connection phase included). deprecateEOF selects
// whether CLIENT_DEPRECATE_EOF is negotiated; the DB is switched to the same mode.
func Open(env *sess.MyEnv, id []byte, db *DB, deprecateEOF bool) (*Client, error) {
	s, err := sess.NewMySession(env, id, nil)
	if err != nil {
		return nil, err
	}
	if deprecateEOF {
		s.ClientCaps |= sess.MyCapDeprecateEOF
	} else {
		s.ClientCaps &^= sess.MyCapDeprecateEOF
	}
	if err := s.Startup(); err != nil {
		s.Close()
		return nil, err
	}
	db.DeprecateEOF = deprecateEOF
	db.ResetSession()
	return &Client{S: s, DB: db}, nil
}

// Close ends the session.
func (c *Client) Close() { c.S.Close() }

// Result is what one command produced.
type Result struct {
	Step *sess.MyStepResult
	Seen *Seen // the command as the scripted database saw it (nil: nothing arrived)
	// Verdict-relevant failures of the proxy: "" when none, else "malformed", "panic", "terminated"
	Failure string
	Detail  string
	Sets    []*sess.MyResultSet     // COM_QUERY / COM_STMT_EXECUTE: decoded response
	Prep    *sess.MyPrepareResponse // COM_STMT_PREPARE: decoded response
}

// ErrHarnessDB marks a statement the scripted database does not understand.
var ErrHarnessDB = errors.New("scripted database")

func (c *Client) step(payload []byte) (*Result, error) {
	before := len(c.DB.Log)
	res, err := c.S.Step([]sess.MyPacket{{Seq: 0, Payload: payload}}, c.DB.Respond)
	c.Transitions++
	out := &Result{Step: res}
	if len(c.DB.Log) > before {
		out.Seen = c.DB.Last()
	}
	if errors.Is(err, sess.ErrMalformed) {
		out.Failure, out.Detail = "malformed", err.Error()
		return out, nil
	}
	if err != nil {
		return out, err
	}
	if p := c.S.PanicList(); len(p) > 0 {
		out.Failure, out.Detail = "panic", fmt.Sprint(p)+" at "+panicSite(c.S)
		return out, nil
	}
	if res.Terminated {
		out.Failure, out.Detail = "terminated", fmt.Sprint(c.S.ProxyErrorList())
	}
	return out, nil
}

// Query sends COM_QUERY and decodes the text-protocol response.
func (c *Client) Query(sql string) (*Result, error) {
	out, err := c.step(sess.MyQuery(sql))
	if err != nil || out.Failure != "" {
		return out, err
	}
	c.decode(out, false)
	return out, nil
}

func (c *Client) decode(out *Result, binary bool) {
	sets, err := sess.DecodeMyResults(out.Step.Client, binary, c.S.DeprecateEOF())
	out.Sets = sets
	if err != nil {
		out.Failure, out.Detail = "malformed", "the response sent to the client does not decode: "+err.Error()
		return
	}
	if err := sess.MyCheckSeq(out.Step.Client, 1); err != nil {
		out.Failure, out.Detail = "malformed", "sequence ids of the response: "+err.Error()
	}
}

// Prepare sends COM_STMT_PREPARE and decodes the response.
func (c *Client) Prepare(sql string) (*Result, error) {
	out, err := c.step(sess.MyPrepare(sql))
	if err != nil || out.Failure != "" {
		return out, err
	}
	pr, derr := sess.DecodeMyPrepareResponse(out.Step.Client, c.S.DeprecateEOF())
	out.Prep = pr
	if derr != nil {
		out.Failure, out.Detail = "malformed", "the prepare response sent to the client does not decode: "+derr.Error()
	}
	return out, nil
}

// Execute sends COM_STMT_EXECUTE (types bound) and decodes the binary-protocol response.
func (c *Client) Execute(stmtID uint32, params []sess.MyParam) (*Result, error) {
	b, err := (&sess.MyExecute{StmtID: stmtID, Iterations: 1, NewParamsBound: len(params) > 0, Params: params}).Encode()
	if err != nil {
		return nil, fmt.Errorf("%w: %v", sess.ErrHarness, err)
	}
	out, err := c.step(b)
	if err != nil || out.Failure != "" {
		return out, err
	}
	c.decode(out, true)
	return out, nil
}

// CloseStmt sends COM_STMT_CLOSE (no response).
func (c *Client) CloseStmt(stmtID uint32) (*Result, error) {
	return c.step(sess.MyStmtID(sess.MyComStmtClose, stmtID))
}

// PrepExec prepares sql, executes it with params and closes the statement; the returned result is
// that of the execution (or of the first step that failed). prep is the prepare step.
func (c *Client) PrepExec(sql string, params []sess.MyParam) (exec *Result, prep *Result, err error) {
	prep, err = c.Prepare(sql)
	if err != nil || prep.Failure != "" {
		return prep, prep, err
	}
	if prep.Prep == nil || prep.Prep.OK == nil {
		return prep, prep, nil // the prepare was answered with an error packet
	}
	id := prep.Prep.OK.StmtID
	exec, err = c.Execute(id, params)
	if err != nil || exec.Failure != "" {
		return exec, prep, err
	}
	if cl, err := c.CloseStmt(id); err != nil || cl.Failure != "" {
		return cl, prep, err
	}
	return exec, prep, nil
}

// HarnessErr reports a statement of this result that the scripted database did not understand.
func (r *Result) HarnessErr() string {
	if r != nil && r.Seen != nil {
		return r.Seen.Err
	}
	return ""
}

// Quote writes b as a MySQL string literal: backslash escapes for \ ' NUL newline CR Ctrl-Z.
func Quote(b []byte) string {
	out := []byte{'\''}
	for _, c := range b {
		switch c {
		case '\\':
			out = append(out, '\\', '\\')
		case '\'':
			out = append(out, '\\', '\'')
		case 0:
			out = append(out, '\\', '0')
		case '\n':
			out = append(out, '\\', 'n')
		case '\r':
			out = append(out, '\\', 'r')
		case 0x1a:
			out = append(out, '\\', 'Z')
		default:
			out = append(out, c)
		}
	}
	return string(append(out, '\''))
}

// LongParam is an integer parameter of type MYSQL_TYPE_LONG.
func LongParam(n int) sess.MyParam {
	u := uint32(int32(n))
	return sess.MyParam{Type: sess.MyTypeLong, Value: []byte{byte(u), byte(u >> 8), byte(u >> 16), byte(u >> 24)}}
}

// StrParam is a string parameter of type MYSQL_TYPE_VAR_STRING.
func StrParam(s string) sess.MyParam {
	return sess.MyParam{Type: sess.MyTypeVarString, Value: []byte(s)}
}

// panicSite names the first frames of Acra code in the recorded panic stack.
func panicSite(s *sess.MySession) string {
	if len(s.PanicStacks) == 0 {
		return "?"
	}
	var frames []string
	for _, l := range strings.Split(s.PanicStacks[0], "\n") {
		l = strings.TrimSpace(l)
		if strings.Contains(l, "/repo/") || (strings.Contains(l, "cossacklabs/acra") && strings.Contains(l, ".go:")) {
			if i := strings.LastIndex(l, " +0x"); i > 0 {
				l = l[:i]
			}
			frames = append(frames, l)
			if len(frames) == 3 {
				break
			}
		}
	}
	return strings.Join(frames, " <- ")
}
