package mycheck

import (
	"bytes"
	"encoding/binary"
	"fmt"
	"strconv"
	"strings"

	"verif/sess"
)

// Column of a scripted table. Type is the column type a real MySQL table of that kind announces:
// MyTypeBlob (BLOB, character set binary), MyTypeVarString (VARCHAR, utf8mb4), MyTypeLong (INT),
// MyTypeLongLong (BIGINT).
type Column struct {
	Name string
	Type byte
}

// Table is a scripted table. A cell is the stored bytes (nil = NULL); INT/BIGINT cells hold the
// decimal text of the number.
type Table struct {
	Name string
	Cols []Column
	Rows [][][]byte
}

// Col returns the index of column name (-1 when absent).
func (t *Table) Col(name string) int {
	for i, c := range t.Cols {
		if c.Name == name {
			return i
		}
	}
	return -1
}

type prepared struct {
	st    *Stmt
	sql   string
	types []byte // parameter types of the previous execution
}

// Seen is one command that reached the database end.
type Seen struct {
	Cmd    byte
	SQL    string          // COM_QUERY / COM_STMT_PREPARE: the statement text
	Stmt   *Stmt           // ... parsed (nil when the reader rejected it)
	Exec   *sess.MyExecute // COM_STMT_EXECUTE: the decoded command
	ExecOf string          // ... the text of the executed statement
	Err    string          // why the scripted database could not understand the command ("" = understood)
	// Bad is set when the command is malformed on the wire (a COM_STMT_EXECUTE that does not decode
	// for the prepared statement's parameter count): a verdict about whoever sent it, answered with
	// the error a MySQL server gives
	Bad string
	// Matched is the number of rows the WHERE clause selected (select / update / delete)
	Matched int
}

// DB is the scripted database of one scenario: it is used by one session at a time.
type DB struct {
	Tables       map[string]*Table
	DeprecateEOF bool // must equal the session's negotiated CLIENT_DEPRECATE_EOF
	Log          []*Seen
	stmts        map[uint32]*prepared
	nextID       uint32
}

// Harness errors of the scripted database are reported as ERR packets with this code, so that a
// check can tell "the harness does not understand the statement" from a database error.
const HarnessErrCode = 9999

// NewDB creates the database with table t (id INT, plain VARCHAR, c, and d when dType != 0) and
// the unconfigured table u (id INT, note VARCHAR, c2 BLOB) holding three rows.
func NewDB(cType, dType byte) *DB {
	db := &DB{Tables: map[string]*Table{}, stmts: map[uint32]*prepared{}, nextID: 1}
	t := &Table{Name: "t", Cols: []Column{{"id", sess.MyTypeLong}, {"plain", sess.MyTypeVarString}, {"c", cType}}}
	if dType != 0 {
		t.Cols = append(t.Cols, Column{"d", dType})
	}
	db.Tables["t"] = t
	u := &Table{Name: "u", Cols: []Column{{"id", sess.MyTypeLong}, {"note", sess.MyTypeVarString}, {"c2", sess.MyTypeBlob}}}
	for i := 1; i <= 3; i++ {
		u.Rows = append(u.Rows, [][]byte{[]byte(strconv.Itoa(i)), []byte(fmt.Sprintf("note-%d", i)), nil})
	}
	db.Tables["u"] = u
	return db
}

// Clone copies the tables (not the prepared statements, not the log).
func (db *DB) Clone() *DB {
	out := &DB{Tables: map[string]*Table{}, stmts: map[uint32]*prepared{}, nextID: 1, DeprecateEOF: db.DeprecateEOF}
	for n, t := range db.Tables {
		c := &Table{Name: t.Name, Cols: append([]Column{}, t.Cols...)}
		for _, r := range t.Rows {
			row := make([][]byte, len(r))
			for i, v := range r {
				if v != nil {
					row[i] = append([]byte{}, v...)
				}
			}
			c.Rows = append(c.Rows, row)
		}
		out.Tables[n] = c
	}
	return out
}

// ResetSession forgets the prepared statements (a new connection).
func (db *DB) ResetSession() { db.stmts = map[uint32]*prepared{}; db.nextID = 1 }

// Last returns the last command seen (nil when none).
func (db *DB) Last() *Seen {
	if len(db.Log) == 0 {
		return nil
	}
	return db.Log[len(db.Log)-1]
}

// ---- values ----------------------------------------------------------------------------------------

type val struct {
	null bool
	b    []byte
	num  bool // a number (integer column, integer literal, integer parameter)
}

func (v val) int() int64 {
	s := strings.TrimSpace(string(v.b))
	// MySQL converts the longest numeric prefix
	j := 0
	for j < len(s) && (isDigit(s[j]) || (j == 0 && (s[j] == '-' || s[j] == '+'))) {
		j++
	}
	n, _ := strconv.ParseInt(s[:j], 10, 64)
	return n
}

type rowCtx struct {
	refs   []TableRef
	tables []*Table
	rows   [][][]byte
	params []val
}

func (rc *rowCtx) column(qual, name string) (val, error) {
	for k, tr := range rc.refs {
		if qual != "" && qual != tr.Alias && !(tr.Alias == "" && qual == tr.Name) && !(qual == tr.Name) {
			continue
		}
		if ci := rc.tables[k].Col(name); ci >= 0 {
			c := rc.rows[k][ci]
			t := rc.tables[k].Cols[ci].Type
			return val{null: c == nil, b: c, num: t == sess.MyTypeLong || t == sess.MyTypeLongLong}, nil
		}
	}
	return val{}, fmt.Errorf("unknown column %s.%s", qual, name)
}

func (rc *rowCtx) eval(e *Expr) (val, error) {
	switch e.Op {
	case "lit":
		return val{b: e.Tok.Val, num: e.Tok.Kind == TNumber}, nil
	case "null":
		return val{null: true}, nil
	case "param":
		if e.Param >= len(rc.params) {
			return val{}, fmt.Errorf("placeholder %d has no value", e.Param)
		}
		return rc.params[e.Param], nil
	case "col":
		return rc.column(e.Qual, e.Name)
	case "neg":
		v, err := rc.eval(e.Args[0])
		if err != nil || v.null {
			return v, err
		}
		// the sign belongs to the digits (-9223372036854775808 has no positive counterpart)
		if s := strings.TrimSpace(string(v.b)); v.num && !strings.HasPrefix(s, "-") {
			return val{b: []byte("-" + s), num: true}, nil
		}
		return val{b: []byte(strconv.FormatInt(-v.int(), 10)), num: true}, nil
	case "func":
		switch e.Name {
		case "substr", "substring":
			if len(e.Args) != 3 {
				return val{}, fmt.Errorf("substr with %d arguments", len(e.Args))
			}
			s, err := rc.eval(e.Args[0])
			if err != nil {
				return val{}, err
			}
			from, err1 := rc.eval(e.Args[1])
			n, err2 := rc.eval(e.Args[2])
			if err1 != nil || err2 != nil {
				return val{}, fmt.Errorf("substr arguments: %v %v", err1, err2)
			}
			if s.null || from.null || n.null {
				return val{null: true}, nil
			}
			a, l := int(from.int()), int(n.int())
			if a < 1 || l < 0 {
				return val{}, fmt.Errorf("substr(%d, %d) is outside the scripted database's domain", a, l)
			}
			if a-1 >= len(s.b) {
				return val{b: []byte{}}, nil
			}
			end := a - 1 + l
			if end > len(s.b) {
				end = len(s.b)
			}
			return val{b: s.b[a-1 : end]}, nil
		case "convert":
			if e.Qual != "binary" && e.Qual != "char" {
				return val{}, fmt.Errorf("convert(.., %s) is outside the scripted database's domain", e.Qual)
			}
			v, err := rc.eval(e.Args[0])
			v.num = false
			return v, err
		case "values":
			// VALUES(col) inside ON DUPLICATE KEY UPDATE is resolved by the caller
		}
		return val{}, fmt.Errorf("function %s is outside the scripted database's domain", e.Name)
	}
	t, err := rc.truth(e)
	if err != nil {
		return val{}, err
	}
	if t == unknown {
		return val{null: true}, nil
	}
	return val{b: []byte(strconv.Itoa(int(t))), num: true}, nil
}

type tri int

const (
	no      tri = 0
	yes     tri = 1
	unknown tri = 2
)

func compare(a, b val) int {
	if a.num || b.num {
		x, y := a.int(), b.int()
		switch {
		case x < y:
			return -1
		case x > y:
			return 1
		}
		return 0
	}
	return bytes.Compare(a.b, b.b)
}

func like(s, pat []byte) bool {
	// % any run, _ one byte, backslash escapes
	if len(pat) == 0 {
		return len(s) == 0
	}
	switch pat[0] {
	case '%':
		for i := 0; i <= len(s); i++ {
			if like(s[i:], pat[1:]) {
				return true
			}
		}
		return false
	case '_':
		return len(s) > 0 && like(s[1:], pat[1:])
	case '\\':
		if len(pat) > 1 {
			return len(s) > 0 && s[0] == pat[1] && like(s[1:], pat[2:])
		}
	}
	return len(s) > 0 && s[0] == pat[0] && like(s[1:], pat[1:])
}

func (rc *rowCtx) truth(e *Expr) (tri, error) {
	switch e.Op {
	case "and", "or":
		a, err := rc.truth(e.Args[0])
		if err != nil {
			return no, err
		}
		b, err := rc.truth(e.Args[1])
		if err != nil {
			return no, err
		}
		if e.Op == "and" {
			switch {
			case a == no || b == no:
				return no, nil
			case a == unknown || b == unknown:
				return unknown, nil
			}
			return yes, nil
		}
		switch {
		case a == yes || b == yes:
			return yes, nil
		case a == unknown || b == unknown:
			return unknown, nil
		}
		return no, nil
	case "not":
		a, err := rc.truth(e.Args[0])
		if err != nil || a == unknown {
			return a, err
		}
		return 1 - a, nil
	case "is-null", "is-not-null":
		v, err := rc.eval(e.Args[0])
		if err != nil {
			return no, err
		}
		if v.null == (e.Op == "is-null") {
			return yes, nil
		}
		return no, nil
	case "=", "!=", "<=>", "<", "<=", ">", ">=", "like", "not like":
		a, err := rc.eval(e.Args[0])
		if err != nil {
			return no, err
		}
		b, err := rc.eval(e.Args[1])
		if err != nil {
			return no, err
		}
		if e.Op == "<=>" {
			if a.null || b.null {
				if a.null && b.null {
					return yes, nil
				}
				return no, nil
			}
			if compare(a, b) == 0 {
				return yes, nil
			}
			return no, nil
		}
		if a.null || b.null {
			return unknown, nil
		}
		var r bool
		switch e.Op {
		case "like":
			r = like(a.b, b.b)
		case "not like":
			r = !like(a.b, b.b)
		default:
			c := compare(a, b)
			r = map[string]bool{"=": c == 0, "!=": c != 0, "<": c < 0, "<=": c <= 0, ">": c > 0, ">=": c >= 0}[e.Op]
		}
		if r {
			return yes, nil
		}
		return no, nil
	}
	// a bare value used as a condition
	v, err := rc.eval(e)
	if err != nil {
		return no, err
	}
	if v.null {
		return unknown, nil
	}
	if v.int() != 0 {
		return yes, nil
	}
	return no, nil
}

// ---- parameters ------------------------------------------------------------------------------------

func paramVal(p sess.MyParam) (val, error) {
	if p.Value == nil || p.Type == sess.MyTypeNull {
		return val{null: true}, nil
	}
	switch p.Type {
	case sess.MyTypeTiny, sess.MyTypeShort, sess.MyTypeLong, sess.MyTypeLongLong, sess.MyTypeInt24, sess.MyTypeYear:
		b := make([]byte, 8)
		copy(b, p.Value)
		u := binary.LittleEndian.Uint64(b)
		if !p.Unsigned {
			// sign-extend
			sh := uint(64 - 8*len(p.Value))
			return val{b: []byte(strconv.FormatInt(int64(u<<sh)>>sh, 10)), num: true}, nil
		}
		return val{b: []byte(strconv.FormatUint(u, 10)), num: true}, nil
	case sess.MyTypeVarString, sess.MyTypeString, sess.MyTypeVarchar, sess.MyTypeBlob, sess.MyTypeTinyBlob, sess.MyTypeMediumBlob, sess.MyTypeLongBlob:
		return val{b: p.Value}, nil
	}
	return val{}, fmt.Errorf("parameter type 0x%02x is outside the scripted database's domain", p.Type)
}

// ---- storing -----------------------------------------------------------------------------------------

type dbError struct {
	code  uint16
	state string
	msg   string
}

func (e *dbError) Error() string { return e.msg }

// cell converts a value to what a column of type t stores (strict mode: a non-integer in an
// integer column is an error, as in MySQL's default sql_mode).
func cell(v val, c Column) ([]byte, error) {
	if v.null {
		return nil, nil
	}
	if c.Type == sess.MyTypeLong || c.Type == sess.MyTypeLongLong {
		bits := 32
		if c.Type == sess.MyTypeLongLong {
			bits = 64
		}
		n, err := strconv.ParseInt(string(v.b), 10, bits)
		if err != nil {
			return nil, &dbError{1366, "HY000", fmt.Sprintf("Incorrect integer value: '%.40q' for column '%s' at row 1", v.b, c.Name)}
		}
		return []byte(strconv.FormatInt(n, 10)), nil
	}
	return append([]byte{}, v.b...), nil
}

func (db *DB) exec(st *Stmt, params []val, seen *Seen) (answer [][]byte, sel *selectResult, err error) {
	ok := func(affected int) [][]byte {
		return [][]byte{(&sess.MyOK{AffectedRows: uint64(affected), Status: sess.MyStatusAutocommit}).Encode()}
	}
	if st.Kind == "other" {
		return ok(0), nil, nil
	}
	t := db.Tables[st.Table]
	if t == nil {
		return nil, nil, &dbError{1146, "42S02", "Table 'appdb." + st.Table + "' doesn't exist"}
	}
	switch st.Kind {
	case "insert":
		cols := st.Cols
		if cols == nil {
			for _, c := range t.Cols {
				cols = append(cols, c.Name)
			}
		}
		var newRows [][][]byte
		for _, tuple := range st.Rows {
			if len(tuple) != len(cols) {
				return nil, nil, &dbError{1136, "21S01", "Column count doesn't match value count at row 1"}
			}
			row := make([][]byte, len(t.Cols))
			for k, name := range cols {
				ci := t.Col(name)
				if ci < 0 {
					return nil, nil, &dbError{1054, "42S22", "Unknown column '" + name + "' in 'field list'"}
				}
				v, err := (&rowCtx{params: params}).eval(tuple[k])
				if err != nil {
					return nil, nil, err
				}
				if row[ci], err = cell(v, t.Cols[ci]); err != nil {
					return nil, nil, err
				}
			}
			newRows = append(newRows, row)
		}
		affected := 0
		for _, row := range newRows {
			dup := -1
			if st.OnDup != nil && row[0] != nil {
				for i, r := range t.Rows {
					if bytes.Equal(r[0], row[0]) {
						dup = i
					}
				}
			}
			if dup < 0 {
				t.Rows = append(t.Rows, row)
				affected++
				continue
			}
			for _, a := range st.OnDup {
				ci := t.Col(a.Col)
				if ci < 0 {
					return nil, nil, &dbError{1054, "42S22", "Unknown column '" + a.Col + "' in 'field list'"}
				}
				var v val
				var err error
				if a.Val.Op == "func" && a.Val.Name == "values" && len(a.Val.Args) == 1 && a.Val.Args[0].Op == "col" {
					vi := t.Col(a.Val.Args[0].Name)
					if vi < 0 {
						return nil, nil, fmt.Errorf("VALUES(%s): unknown column", a.Val.Args[0].Name)
					}
					v = val{null: row[vi] == nil, b: row[vi]}
				} else if v, err = (&rowCtx{refs: []TableRef{{Name: t.Name}}, tables: []*Table{t}, rows: [][][]byte{t.Rows[dup]}, params: params}).eval(a.Val); err != nil {
					return nil, nil, err
				}
				if t.Rows[dup][ci], err = cell(v, t.Cols[ci]); err != nil {
					return nil, nil, err
				}
			}
			affected += 2
		}
		return ok(affected), nil, nil
	case "update", "delete":
		var keep [][][]byte
		n := 0
		for _, row := range t.Rows {
			rc := &rowCtx{refs: []TableRef{{Name: t.Name}}, tables: []*Table{t}, rows: [][][]byte{row}, params: params}
			hit := yes
			if st.Where != nil {
				var err error
				if hit, err = rc.truth(st.Where); err != nil {
					return nil, nil, err
				}
			}
			if hit != yes {
				keep = append(keep, row)
				continue
			}
			n++
			if st.Kind == "delete" {
				continue
			}
			newRow := append([][]byte{}, row...)
			for _, a := range st.Set {
				ci := t.Col(a.Col)
				if ci < 0 {
					return nil, nil, &dbError{1054, "42S22", "Unknown column '" + a.Col + "' in 'field list'"}
				}
				v, err := rc.eval(a.Val)
				if err != nil {
					return nil, nil, err
				}
				if newRow[ci], err = cell(v, t.Cols[ci]); err != nil {
					return nil, nil, err
				}
			}
			copy(row, newRow)
			keep = append(keep, row)
		}
		t.Rows = keep
		seen.Matched = n
		return ok(n), nil, nil
	case "select":
		defs, pick, tables, err := db.selectShape(st)
		if err != nil {
			return nil, nil, err
		}
		var out [][][]byte
		// nested loops over the tables of the FROM clause
		var rec func(k int, rows [][][]byte) error
		rec = func(k int, rows [][][]byte) error {
			if k == len(tables) {
				rc := &rowCtx{refs: st.From, tables: tables, rows: rows, params: params}
				if st.Where != nil {
					hit, err := rc.truth(st.Where)
					if err != nil {
						return err
					}
					if hit != yes {
						return nil
					}
				}
				r := make([][]byte, len(pick))
				for i, p := range pick {
					r[i] = rows[p[0]][p[1]]
				}
				out = append(out, r)
				return nil
			}
			for _, row := range tables[k].Rows {
				cur := append(append([][][]byte{}, rows...), row)
				if st.From[k].On != nil {
					rc := &rowCtx{refs: st.From[:k+1], tables: tables[:k+1], rows: cur, params: params}
					hit, err := rc.truth(st.From[k].On)
					if err != nil {
						return err
					}
					if hit != yes {
						continue
					}
				}
				if err := rec(k+1, cur); err != nil {
					return err
				}
			}
			return nil
		}
		if err := rec(0, nil); err != nil {
			return nil, nil, err
		}
		seen.Matched = len(out)
		return nil, &selectResult{defs: defs, rows: out}, nil
	}
	return nil, nil, fmt.Errorf("statement kind %q", st.Kind)
}

// selectResult is what a SELECT produced: column definitions and the cells of the matching rows.
type selectResult struct {
	defs []*sess.MyColumnDef
	rows [][][]byte
}

// ColumnDef is the definition a real MySQL server announces for column c of table (alias
// tableAlias, "" = none) selected as nameAlias ("" = no alias).
func ColumnDef(table, tableAlias string, c Column, nameAlias string) *sess.MyColumnDef {
	d := &sess.MyColumnDef{Catalog: []byte("def"), Schema: []byte("appdb"), Table: []byte(table), OrgTable: []byte(table),
		Name: []byte(c.Name), OrgName: []byte(c.Name), Type: c.Type}
	if tableAlias != "" {
		d.Table = []byte(tableAlias)
	}
	if nameAlias != "" {
		d.Name = []byte(nameAlias)
	}
	switch c.Type {
	case sess.MyTypeBlob:
		d.Charset, d.ColumnLength, d.Flags = 63, 65535, 0x0090 // BLOB_FLAG | BINARY_FLAG
	case sess.MyTypeLong:
		d.Charset, d.ColumnLength, d.Flags = 63, 11, 0
	case sess.MyTypeLongLong:
		d.Charset, d.ColumnLength, d.Flags = 63, 20, 0
	default:
		d.Charset, d.ColumnLength, d.Flags = 255, 1020, 0 // utf8mb4_0900_ai_ci, VARCHAR(255)
	}
	return d
}

func (db *DB) selectShape(st *Stmt) (defs []*sess.MyColumnDef, pick [][2]int, tables []*Table, err error) {
	for _, tr := range st.From {
		t := db.Tables[tr.Name]
		if t == nil {
			return nil, nil, nil, &dbError{1146, "42S02", "Table 'appdb." + tr.Name + "' doesn't exist"}
		}
		tables = append(tables, t)
	}
	match := func(k int, qual string) bool {
		return qual == "" || qual == st.From[k].Alias || (st.From[k].Alias == "" && qual == st.From[k].Name)
	}
	for _, it := range st.Items {
		found := false
		for k, t := range tables {
			if !match(k, it.Qual) {
				continue
			}
			if it.Star {
				for ci, c := range t.Cols {
					defs = append(defs, ColumnDef(t.Name, st.From[k].Alias, c, ""))
					pick = append(pick, [2]int{k, ci})
				}
				found = true
				continue
			}
			if ci := t.Col(it.Name); ci >= 0 {
				defs = append(defs, ColumnDef(t.Name, st.From[k].Alias, t.Cols[ci], it.Alias))
				pick = append(pick, [2]int{k, ci})
				found = true
				break
			}
		}
		if !found {
			return nil, nil, nil, &dbError{1054, "42S22", "Unknown column '" + it.Name + "' in 'field list'"}
		}
	}
	return defs, pick, tables, nil
}

// ---- wire ----------------------------------------------------------------------------------------------

func (db *DB) eofOrOK(status uint16) []byte {
	if db.DeprecateEOF {
		return (&sess.MyOK{Header: 0xfe, Status: status}).Encode()
	}
	return (&sess.MyEOF{Status: status}).Encode()
}

// BinaryCell is the binary-protocol form of a stored cell of type t (nil stays nil).
func BinaryCell(t byte, c []byte) ([]byte, error) {
	if c == nil {
		return nil, nil
	}
	switch t {
	case sess.MyTypeLong:
		n, err := strconv.ParseInt(string(c), 10, 32)
		if err != nil {
			return nil, fmt.Errorf("INT cell holds %q", c)
		}
		return binary.LittleEndian.AppendUint32(nil, uint32(int32(n))), nil
	case sess.MyTypeLongLong:
		n, err := strconv.ParseInt(string(c), 10, 64)
		if err != nil {
			return nil, fmt.Errorf("BIGINT cell holds %q", c)
		}
		return binary.LittleEndian.AppendUint64(nil, uint64(n)), nil
	}
	return c, nil
}

// ResultSet serialises a result set (payloads; sequence ids are added by the caller).
func (db *DB) ResultSet(binaryRows bool, defs []*sess.MyColumnDef, rows [][][]byte) ([][]byte, error) {
	out := [][]byte{sess.MyPutLenencInt(nil, uint64(len(defs)))}
	types := make([]byte, len(defs))
	for i, d := range defs {
		out = append(out, d.Encode())
		types[i] = d.Type
	}
	if !db.DeprecateEOF {
		out = append(out, (&sess.MyEOF{Status: sess.MyStatusAutocommit}).Encode())
	}
	for _, r := range rows {
		if !binaryRows {
			out = append(out, sess.MyTextRow(r))
			continue
		}
		br := make([][]byte, len(r))
		for i := range r {
			var err error
			if br[i], err = BinaryCell(types[i], r[i]); err != nil {
				return nil, err
			}
		}
		b, err := sess.MyBinaryRow(types, br)
		if err != nil {
			return nil, err
		}
		out = append(out, b)
	}
	return append(out, db.eofOrOK(sess.MyStatusAutocommit)), nil
}

func (db *DB) errPacket(err error) [][]byte {
	if e, ok := err.(*dbError); ok {
		return [][]byte{(&sess.MyERR{Code: e.code, SQLState: e.state, Message: e.msg}).Encode()}
	}
	return [][]byte{(&sess.MyERR{Code: HarnessErrCode, SQLState: "XXVRF", Message: err.Error()}).Encode()}
}

func paramDef() *sess.MyColumnDef {
	return &sess.MyColumnDef{Catalog: []byte("def"), Name: []byte("?"), Charset: 63, Type: sess.MyTypeVarString, Flags: 0x0080}
}

// Respond answers the command that reached the database end (a sess.MyResponder). Commands
// without a response (COM_STMT_CLOSE, COM_STMT_SEND_LONG_DATA, COM_QUIT) get none.
func (db *DB) Respond(received []sess.MyPacket) []sess.MyPacket {
	if len(received) == 0 {
		return nil
	}
	seen := &Seen{}
	db.Log = append(db.Log, seen)
	var payloads [][]byte
	fail := func(err error) {
		if _, ok := err.(*dbError); !ok {
			seen.Err = err.Error()
		}
		payloads = db.errPacket(err)
	}
	p := received[0].Payload
	switch {
	case len(received) != 1:
		fail(fmt.Errorf("%d packets arrived for one command", len(received)))
	case len(p) == 0:
		fail(fmt.Errorf("empty command packet"))
	default:
		seen.Cmd = p[0]
		switch p[0] {
		case sess.MyComQuery:
			seen.SQL = string(p[1:])
			st, err := ParseStmt(seen.SQL)
			if err != nil {
				fail(fmt.Errorf("the scripted database cannot read %.200q: %v", seen.SQL, err))
				break
			}
			seen.Stmt = st
			if st.NParams > 0 {
				fail(&dbError{1064, "42000", "You have an error in your SQL syntax near '?'"})
				break
			}
			answer, sr, err := db.exec(st, nil, seen)
			switch {
			case err != nil:
				fail(err)
			case sr != nil:
				if payloads, err = db.ResultSet(false, sr.defs, sr.rows); err != nil {
					fail(err)
				}
			default:
				payloads = answer
			}
		case sess.MyComStmtPrepare:
			seen.SQL = string(p[1:])
			st, err := ParseStmt(seen.SQL)
			if err != nil {
				fail(fmt.Errorf("the scripted database cannot read %.200q: %v", seen.SQL, err))
				break
			}
			seen.Stmt = st
			var defs []*sess.MyColumnDef
			if st.Kind == "select" {
				if defs, _, _, err = db.selectShape(st); err != nil {
					fail(err)
					break
				}
			} else if st.Kind != "other" && db.Tables[st.Table] == nil {
				fail(&dbError{1146, "42S02", "Table 'appdb." + st.Table + "' doesn't exist"})
				break
			}
			id := db.nextID
			db.nextID++
			db.stmts[id] = &prepared{st: st, sql: seen.SQL}
			payloads = [][]byte{(&sess.MyPrepareOK{StmtID: id, NumParams: uint16(st.NParams), NumColumns: uint16(len(defs))}).Encode()}
			if st.NParams > 0 {
				for i := 0; i < st.NParams; i++ {
					payloads = append(payloads, paramDef().Encode())
				}
				if !db.DeprecateEOF {
					payloads = append(payloads, (&sess.MyEOF{Status: sess.MyStatusAutocommit}).Encode())
				}
			}
			if len(defs) > 0 {
				for _, d := range defs {
					payloads = append(payloads, d.Encode())
				}
				if !db.DeprecateEOF {
					payloads = append(payloads, (&sess.MyEOF{Status: sess.MyStatusAutocommit}).Encode())
				}
			}
		case sess.MyComStmtExecute:
			if len(p) < 5 {
				fail(fmt.Errorf("short COM_STMT_EXECUTE"))
				break
			}
			id := binary.LittleEndian.Uint32(p[1:])
			ps := db.stmts[id]
			if ps == nil {
				fail(&dbError{1243, "HY000", "Unknown prepared statement handler given to mysqld_stmt_execute"})
				break
			}
			seen.ExecOf, seen.Stmt = ps.sql, ps.st
			ex, err := sess.DecodeMyExecute(p, ps.st.NParams, ps.types)
			if err != nil {
				seen.Bad = fmt.Sprintf("COM_STMT_EXECUTE for %q does not decode: %v", ps.sql, err)
				fail(&dbError{1210, "HY000", "Incorrect arguments to mysqld_stmt_execute"})
				break
			}
			seen.Exec = ex
			var params []val
			ps.types = nil
			for _, prm := range ex.Params {
				ps.types = append(ps.types, prm.Type)
				v, err := paramVal(prm)
				if err != nil {
					fail(err)
					break
				}
				params = append(params, v)
			}
			if payloads != nil {
				break
			}
			answer, sr, err := db.exec(ps.st, params, seen)
			switch {
			case err != nil:
				fail(err)
			case sr != nil:
				if payloads, err = db.ResultSet(true, sr.defs, sr.rows); err != nil {
					fail(err)
				}
			default:
				payloads = answer
			}
		case sess.MyComStmtClose:
			if len(p) >= 5 {
				delete(db.stmts, binary.LittleEndian.Uint32(p[1:]))
			}
			return nil
		case sess.MyComStmtLongData, sess.MyComQuit:
			return nil
		case sess.MyComPing, sess.MyComInitDB, sess.MyComStmtReset, sess.MyComResetConn:
			payloads = [][]byte{(&sess.MyOK{Status: sess.MyStatusAutocommit}).Encode()}
		default:
			fail(fmt.Errorf("command 0x%02x is outside the scripted database's domain", p[0]))
		}
	}
	return sess.MySeq(1, payloads...)
}
