package main

// Reveal matrix: every artefact produced under A presented to every reveal entry point under B;
// tokens created under A detokenized under B; A's search hashes verified under B.

import (
	"bytes"
	"crypto/sha256"
	"fmt"

	"github.com/cossacklabs/acra/hmac"
	tokenCommon "github.com/cossacklabs/acra/pseudonymization/common"
	tokenStorage "github.com/cossacklabs/acra/pseudonymization/storage"

	"verif/envl"
	"verif/ev"
	"verif/fx"
)

// caseT fully determines one evaluated element (replay payload). No key/ciphertext bytes: the
// world is rebuilt from (format, rotations) and the artefact re-produced; every oracle is
// independent of the random bytes.
type caseT struct {
	Scenario   string `json:"scenario"`
	Format     string `json:"keystore_format"`
	R          [3]int `json:"rotations_alpha1_bravo2_alpha1x"`
	A          int    `json:"owner_index"`
	B          int    `json:"requesting_index"`
	AName      string `json:"owner"`
	BName      string `json:"requesting_identity"`
	G          int    `json:"owner_key_generation"`
	Class      int    `json:"plaintext_class"`
	Producer   int    `json:"producer_index"`
	ProdName   string `json:"producer,omitempty"`
	Revealer   string `json:"entry_point,omitempty"`
	Embed      string `json:"embedding,omitempty"`
	Backend    int    `json:"token_backend"`
	BackName   string `json:"token_backend_name,omitempty"`
	Val        int    `json:"token_value_index"`
	Consistent bool   `json:"consistent_tokenization"`
	Op         string `json:"operation,omitempty"`
	Method     string `json:"method,omitempty"`
	Variant    string `json:"variant,omitempty"`
	From       string `json:"relocate_from,omitempty"`
	To         string `json:"relocate_to,omitempty"`
	IDSet      string `json:"identity_set,omitempty"` // "" = the three fixture identities, "long" = longIDs
}

func pairKind(a, b int) string {
	if !bytes.Equal(ids[a], ids[b]) && bytes.EqualFold(ids[a], ids[b]) {
		return "ids-differing-in-letter-case"
	}
	if len(ids[a]) >= 64 && len(ids[b]) >= 64 && bytes.Equal(ids[a][:48], ids[b][:48]) {
		return "long-ids-differing-at-the-end"
	}
	if bytes.HasPrefix(ids[a], ids[b]) || bytes.HasPrefix(ids[b], ids[a]) {
		return "prefix-related-ids"
	}
	return "unrelated-ids"
}

func (c caseT) hist() string { return fmt.Sprintf("rA=%d,rB=%d,g=%d", c.R[c.A], c.R[c.B], c.G) }

var embeds = []string{"alone", "embedded(prefix+value+suffix)", "after-own-value"}

var embedPrefix = []byte("{\"note\":\"row 17\",\"v\":\"")
var embedSuffix = []byte("\"}\x00tail")

func trunc(b []byte) []byte {
	if len(b) > 64 {
		return b[:64]
	}
	return b
}

type checker struct {
	r    *ev.Run
	revs map[string]envl.Revealer
}

func (k *checker) input(w *world, c caseT) []byte {
	art := w.arts[artKey{c.A, c.G, c.Class, c.Producer}]
	if art == nil {
		ev.Fatalf("no artefact for %+v", c)
	}
	switch c.Embed {
	case "", "alone":
		return art
	case embeds[1]:
		return append(append(append([]byte{}, embedPrefix...), art...), embedSuffix...)
	case embeds[2]:
		own := w.arts[artKey{c.B, w.r[c.B], c.Class, c.Producer}]
		return append(append([]byte{}, own...), art...)
	}
	ev.Fatalf("embedding %q", c.Embed)
	return nil
}

// evalReveal: oracle = error, or the input handed back unchanged; never bytes that contain A's
// plaintext. (A panic is a failed reveal: recorded as an outcome class, reported by C03/C14,
// not a C02 violation.) For the "after-own-value" embedding the requesting client's own value
// precedes A's: the processor may reveal B's own part, so only "no plaintext of A in the
// output" is demanded there.
func (k *checker) evalReveal(w *world, v *view, c caseT) {
	rv := k.revs[c.Revealer]
	in := k.input(w, c)
	ptA := plaintext(c.Class, c.A)
	o := v.lab.Reveal(rv, ids[c.B], in)
	k.r.Eval(1)
	k.r.Transitions(1)
	k.r.Traces(1)
	form := string(envl.Producers[c.Producer].Form)
	class := ""
	leak := bytes.Contains(o.Out, ptA)
	switch {
	case o.Panic != "":
		class = "panic"
	case o.Err != nil && leak:
		// not returned "in clear to the request" by any caller that honours the error, but worth
		// seeing in the evidence
		class = "error(with-plaintext-in-discarded-output)"
	case o.Err != nil:
		class = "error"
	case leak:
		class = "REVEALED"
		k.r.Violation(fmt.Sprintf("C02/reveal/%s/%s/%s/%s/plaintext-revealed", w.format, rv.Name, form, pairKind(c.A, c.B)),
			fmt.Sprintf("%s under identity %s returned the plaintext of a value protected for %s (producer %s, %s, %s, %s key store, %s)",
				rv.Name, ids[c.B], ids[c.A], envl.Producers[c.Producer].Name, classNames[c.Class], c.hist(), w.format, c.Embed), c)
	case bytes.Equal(o.Out, in):
		class = "unchanged"
	case c.Embed == embeds[2] && bytes.HasSuffix(o.Out, w.arts[artKey{c.A, c.G, c.Class, c.Producer}]):
		// B's own leading value was processed (normally: replaced by B's plaintext; a hash-shaped
		// plaintext of B followed by an envelope is even swallowed by the trailing HMAC
		// processor - B's own data, outside this property); A's stored bytes are intact
		class = "own-part-processed,other-part-kept"
	default:
		class = "ALTERED"
		k.r.Violation(fmt.Sprintf("C02/reveal/%s/%s/%s/%s/neither-error-nor-unchanged", w.format, rv.Name, form, pairKind(c.A, c.B)),
			fmt.Sprintf("%s under identity %s returned without error bytes that are not the stored value of %s (producer %s, %s, %s): out=%x",
				rv.Name, ids[c.B], ids[c.A], envl.Producers[c.Producer].Name, c.hist(), c.Embed, trunc(o.Out)), c)
	}
	k.r.Distinct("reveal|" + w.format + "|" + rv.Name + "|" + form + "|" + c.hist() + "|" + c.Embed + "|" + class)
	k.r.Class("reveal:"+class, 1)
}

// positiveControl: the artefact is revealable by its owner through at least one entry point
// meant for its form (otherwise "B cannot reveal it" would be vacuous).
func (k *checker) positiveControl(w *world, a, g, class, prod int, all []envl.Revealer) {
	art := w.arts[artKey{a, g, class, prod}]
	pt := plaintext(class, a)
	f := envl.Producers[prod].Form
	try := func(f envl.Form, data []byte) bool {
		for _, rv := range all {
			if rv.Column || !rv.Accepts(f) {
				continue
			}
			o := w.lab.Reveal(rv, ids[a], data)
			if o.Err == nil && bytes.Equal(o.Out, pt) {
				return true
			}
		}
		return false
	}
	if try(f, art) {
		return
	}
	// the owner's search hash stops verifying once the owner's HMAC key is rotated (only the
	// newest HMAC key is consulted): for older generations the envelope behind the hash counts
	if f.IsSearchable() && g < w.r[a] {
		inner := envl.StructCont
		if !f.IsStruct() {
			inner = envl.BlockCont
		}
		if try(inner, art[hmac.GetDefaultHashSize():]) {
			return
		}
	}
	// not fatal: with a broken lookup the owner may fail while another identity succeeds; the
	// reveal attempts below still decide the property, the evidence says the control failed
	k.r.Capped(fmt.Sprintf("owner control failed: %s cannot reveal its own %s artefact (%s key store): non-vacuity not established for it",
		ids[a], f, w.format))
	k.r.Class("control:owner-cannot-reveal", 1)
}

// evalToken: oracle = error, or the token handed back unchanged; never A's value.
func (k *checker) evalToken(w *world, v *view, c caseT) {
	rec, ok := w.tokens[tokKey{c.A, c.G, c.Backend, c.Val, c.Consistent}]
	if !ok {
		ev.Fatalf("no token for %+v", c)
	}
	tb := v.toks[c.Backend]
	var out interface{}
	var err error
	o := envl.Guard(func() ([]byte, error) {
		switch c.Op {
		case "Pseudoanonymizer.Deanonymize":
			out, err = tb.tok.Deanonymize(rec.token, tokenCommon.TokenContext{ClientID: ids[c.B]}, rec.typ)
		case "Translator.Detokenize":
			out, err = v.svc.Detokenize(fx.Ctx(nil), rec.token, rec.typ, ids[c.B], nil)
		default:
			ev.Fatalf("op %q", c.Op)
		}
		return nil, err
	})
	k.r.Eval(1)
	k.r.Transitions(1)
	k.r.Traces(1)
	class := ""
	switch {
	case o.Panic != "":
		class = "panic"
	case err != nil:
		class = "error"
	case tokEqual(out, rec.value) || (len(tokBytes(rec.value)) >= 8 && bytes.Contains(tokBytes(out), tokBytes(rec.value))):
		class = "REVEALED"
		k.r.Violation(fmt.Sprintf("C02/detokenize/%s/%s/%s/%s/value-revealed", w.format, c.Op, tb.name, pairKind(c.A, c.B)),
			fmt.Sprintf("%s under identity %s returned the value tokenized for %s (%s, storage %s, consistent=%v, %s)",
				c.Op, ids[c.B], ids[c.A], tokVals[c.Val].name, tb.name, c.Consistent, c.hist()), c)
	case tokEqual(out, rec.token):
		class = "token-unchanged"
	default:
		class = "ALTERED"
		k.r.Violation(fmt.Sprintf("C02/detokenize/%s/%s/%s/%s/neither-error-nor-token", w.format, c.Op, tb.name, pairKind(c.A, c.B)),
			fmt.Sprintf("%s under identity %s returned %v for a token of %s: neither an error nor the token", c.Op, ids[c.B], out, ids[c.A]), c)
	}
	k.r.Distinct("token|" + w.format + "|" + c.Op + "|" + tb.name + "|" + tokVals[c.Val].name + fmt.Sprint(c.Consistent) + "|" + c.hist() + "|" + class)
	k.r.Class("token:"+class, 1)
}

func (k *checker) tokenPositiveControl(w *world, a, g, bi, vi int, consistent bool) {
	rec := w.tokens[tokKey{a, g, bi, vi, consistent}]
	out, err := w.toks[bi].tok.Deanonymize(rec.token, tokenCommon.TokenContext{ClientID: ids[a]}, rec.typ)
	if err != nil || !tokEqual(out, rec.value) {
		k.r.Capped(fmt.Sprintf("owner control failed: %s cannot detokenize its own %s token on %s (%s key store)", ids[a], tokVals[vi].name, w.toks[bi].name, w.format))
		k.r.Class("control:owner-cannot-detokenize", 1)
	}
	if tokEqual(rec.token, rec.value) {
		ev.Fatalf("%s: token equals value (%s): fixture cannot discriminate", w.name, tokVals[vi].name)
	}
}

// evalStorage: the storage layer and the token encryptor driven directly (public API with an
// identity parameter): an entry saved under A's context is not handed out under B's context.
func (k *checker) evalStorage(w *world, v *view, c caseT) {
	secret := []byte(fmt.Sprintf("direct-entry-of-%s-gen-%d-secret", ids[c.A], c.G))
	idh := sha256.Sum256([]byte(fmt.Sprintf("c02 direct id %d %d", c.A, c.G)))
	ctxA, ctxB := tokenCommon.TokenContext{ClientID: ids[c.A]}, tokenCommon.TokenContext{ClientID: ids[c.B]}
	var out []byte
	var err error
	name := ""
	o := envl.Guard(func() ([]byte, error) {
		switch c.Op {
		case "TokenStorage.Get":
			st := v.toks[c.Backend].storage
			name = v.toks[c.Backend].name
			if e := st.Save(idh[:], ctxA, secret); e != nil && e != tokenCommon.ErrTokenExists {
				k.r.Capped(fmt.Sprintf("owner control failed: direct token storage save for %s on %s fails (%s key store)", ids[c.A], name, w.format))
				err = e
				return nil, e
			}
			if own, e := st.Get(idh[:], ctxA); e != nil || !bytes.Equal(own, secret) {
				k.r.Capped(fmt.Sprintf("owner control failed: direct token storage entry of %s not readable by its owner on %s (%s key store)", ids[c.A], name, w.format))
				k.r.Class("control:owner-storage-get", 1)
			}
			out, err = st.Get(idh[:], ctxB)
		case "TokenEncryptor.Decrypt":
			name = "scell-encryptor"
			enc, e := tokenStorage.NewSCellEncryptor(v.ks)
			must(e, "token encryptor")
			blob, e := enc.Encrypt(secret, ctxA)
			if e != nil {
				k.r.Capped(fmt.Sprintf("owner control failed: token encryptor cannot encrypt for %s (%s key store)", ids[c.A], w.format))
				err = e
				return nil, e
			}
			if own, e := enc.Decrypt(blob, ctxA); e != nil || !bytes.Equal(own, secret) {
				k.r.Capped(fmt.Sprintf("owner control failed: token encryptor cannot decrypt for its owner %s (%s key store)", ids[c.A], w.format))
				k.r.Class("control:owner-token-decrypt", 1)
			}
			out, err = enc.Decrypt(blob, ctxB)
		default:
			ev.Fatalf("op %q", c.Op)
		}
		return out, err
	})
	k.r.Eval(1)
	k.r.Transitions(1)
	k.r.Traces(1)
	class := ""
	switch {
	case o.Panic != "":
		class = "panic"
	case err != nil:
		class = "error"
	case bytes.Contains(out, secret):
		class = "REVEALED"
		k.r.Violation(fmt.Sprintf("C02/token-storage/%s/%s/%s/%s/entry-revealed", w.format, c.Op, name, pairKind(c.A, c.B)),
			fmt.Sprintf("%s (%s) under the context of %s returned the entry stored under the context of %s (%s)", c.Op, name, ids[c.B], ids[c.A], c.hist()), c)
	default:
		class = "ALTERED"
		k.r.Violation(fmt.Sprintf("C02/token-storage/%s/%s/%s/%s/no-error", w.format, c.Op, name, pairKind(c.A, c.B)),
			fmt.Sprintf("%s (%s) under the context of %s succeeded on an entry of %s: out=%x", c.Op, name, ids[c.B], ids[c.A], trunc(out)), c)
	}
	k.r.Distinct("storage|" + w.format + "|" + c.Op + "|" + name + "|" + c.hist() + "|" + class)
	k.r.Class("storage:"+class, 1)
}

// evalHash: A's blind-index hash does not verify under B's identity, and B's query hash of the
// same plaintext differs from A's.
func (k *checker) evalHash(w *world, v *view, c caseT) {
	pt := plaintext(c.Class, c.A)
	art := w.arts[artKey{c.A, c.G, c.Class, c.Producer}]
	h := hmac.ExtractHash(art)
	if h == nil {
		ev.Fatalf("searchable artefact without hash (%s)", envl.Producers[c.Producer].Name)
	}
	class := ""
	k.r.Eval(1)
	k.r.Transitions(1)
	k.r.Traces(1)
	switch c.Op {
	case "HashData.IsEqual":
		if c.G == w.r[c.A] && !h.IsEqual(pt, ids[c.A], v.ks) {
			k.r.Capped(fmt.Sprintf("owner control failed: current-generation search hash of %s does not verify for its owner (%s key store)", ids[c.A], w.format))
			k.r.Class("control:owner-hash-mismatch", 1)
		}
		if h.IsEqual(pt, ids[c.B], v.ks) {
			class = "VERIFIED"
			k.r.Violation(fmt.Sprintf("C02/search-hash/%s/HashData.IsEqual/%s/verifies-under-other-identity", w.format, pairKind(c.A, c.B)),
				fmt.Sprintf("search hash computed for %s verifies under identity %s (%s, %s)", ids[c.A], ids[c.B], classNames[c.Class], c.hist()), c)
		} else {
			class = "mismatch"
		}
	case "Translator.GenerateQueryHash":
		hb, err := v.svc.GenerateQueryHash(fx.Ctx(nil), append([]byte{}, pt...), ids[c.B], nil)
		switch {
		case err != nil:
			class = "error"
		case bytes.Equal(hb, h.Marshal()):
			class = "EQUAL"
			k.r.Violation(fmt.Sprintf("C02/search-hash/%s/GenerateQueryHash/%s/equal-across-identities", w.format, pairKind(c.A, c.B)),
				fmt.Sprintf("query hash generated under %s equals the stored search hash of %s for the same plaintext (%s)", ids[c.B], ids[c.A], c.hist()), c)
		default:
			class = "different"
		}
	default:
		ev.Fatalf("op %q", c.Op)
	}
	k.r.Distinct("hash|" + w.format + "|" + c.Op + "|" + c.hist() + "|" + class)
	k.r.Class("hash:"+class, 1)
}

func (k *checker) eval(w *world, c caseT) {
	v := w.acquire()
	defer w.release(v)
	switch c.Scenario {
	case "reveal":
		k.evalReveal(w, v, c)
	case "token":
		k.evalToken(w, v, c)
	case "storage":
		k.evalStorage(w, v, c)
	case "hash":
		k.evalHash(w, v, c)
	default:
		ev.Fatalf("scenario %q", c.Scenario)
	}
}

// pairsOf lists the ordered pairs (A,B) evaluated on a world: those whose third client has no
// rotation, so that every (A,B,rA,rB) occurs in exactly one world.
func pairsOf(r [3]int) [][2]int {
	var out [][2]int
	for a := 0; a < 3; a++ {
		for b := 0; b < 3; b++ {
			if a == b || r[3-a-b] != 0 {
				continue
			}
			out = append(out, [2]int{a, b})
		}
	}
	return out
}

// casesOf enumerates every case of a world (deterministic order) and returns the number of
// distinct (A,B,history,artefact) inputs among them.
func (k *checker) casesOf(w *world, all []envl.Revealer, controls *int) (cases []caseT, inputs int) {
	base := func(a, b, g int) caseT {
		return caseT{Format: w.format, R: w.r, A: a, B: b, AName: string(ids[a]), BName: string(ids[b]), G: g}
	}
	// positive controls: once per artefact / token of every client that acts as owner
	owners := map[int]bool{}
	for _, p := range pairsOf(w.r) {
		owners[p[0]] = true
	}
	for a := 0; a < 3; a++ {
		if !owners[a] {
			continue
		}
		for g := 0; g <= w.r[a]; g++ {
			for class := range classNames {
				for pi := range envl.Producers {
					k.positiveControl(w, a, g, class, pi, all)
					*controls++
				}
			}
			for bi := range w.toks {
				for vi := range tokVals {
					for _, cons := range []bool{false, true} {
						k.tokenPositiveControl(w, a, g, bi, vi, cons)
						*controls++
					}
				}
			}
		}
	}
	for _, p := range pairsOf(w.r) {
		a, b := p[0], p[1]
		for g := 0; g <= w.r[a]; g++ {
			for class := range classNames {
				for pi, prod := range envl.Producers {
					inputs++
					c := base(a, b, g)
					c.Scenario, c.Class, c.Producer, c.ProdName = "reveal", class, pi, prod.Name
					for _, rv := range all {
						c.Revealer = rv.Name
						if rv.Column {
							for _, e := range embeds {
								c.Embed = e
								cases = append(cases, c)
							}
						} else {
							c.Embed = embeds[0]
							cases = append(cases, c)
						}
					}
					if prod.Form.IsSearchable() {
						c.Revealer, c.Embed, c.Scenario = "", "", "hash"
						for _, op := range []string{"HashData.IsEqual", "Translator.GenerateQueryHash"} {
							c.Op = op
							cases = append(cases, c)
						}
					}
				}
			}
			for bi, tb := range w.toks {
				for vi := range tokVals {
					for _, cons := range []bool{false, true} {
						inputs++
						c := base(a, b, g)
						c.Scenario, c.Backend, c.BackName, c.Val, c.Consistent = "token", bi, tb.name, vi, cons
						c.Op = "Pseudoanonymizer.Deanonymize"
						cases = append(cases, c)
						if bi == 1 {
							c.Op = "Translator.Detokenize"
							cases = append(cases, c)
						}
					}
				}
			}
		}
		// storage layer and token encryptor driven directly (entries written at evaluation time,
		// i.e. under A's newest key)
		for bi, tb := range w.toks {
			if bi < 4 { // the context-blind storage is not a storage under test
				inputs++
				c := base(a, b, w.r[a])
				c.Scenario, c.Backend, c.BackName, c.Op = "storage", bi, tb.name, "TokenStorage.Get"
				cases = append(cases, c)
			}
		}
		if len(w.toks) > 0 {
			inputs++
			c := base(a, b, w.r[a])
			c.Scenario, c.Op = "storage", "TokenEncryptor.Decrypt"
			cases = append(cases, c)
		}
	}
	return
}
