// C06 — rotation keeps old data readable; destruction removes exactly the chosen key.
//
// Bounded-exhaustive explicit-state model checking (E2) on the real key stores: BFS over
// operation histories of the alphabet {gen/rotate, read-current, read-all, list, list-rotated,
// destroy-current, destroy-rotated(i), reset-cache, reopen} with canonical-state
// de-duplication, for v1 (in-memory Storage with key cache off / 1 / unbounded, real
// directory) and v2 (in-memory back end, real directory back end). Every transition calls
// the real code (kslab.Lab); the reference model (kslab/model.go) predicts answers and the
// post-state from the *real* pre-state, which is read below the key store API.
//
// Oracle (what the statement demands, nothing more):
//   - read-current: the most recently generated key if it survives. If it has been destroyed
//     the statement's "most recently generated surviving one" admits two behaviours and both
//     are accepted: an error ("no current key", what v1 and v2 do), or promotion of the
//     newest survivor. Never an older key while a newer one survives, never a destroyed key.
//   - read-all: exactly the survivors, newest first (current first). With no survivor an
//     error or an empty answer.
//   - probes: a value protected under each key with the material recorded at generation
//     (AcraStruct / AcraBlock / HMAC) is readable with what read-all (HMAC, audit log:
//     read-current) offers in every state where that key survives.
//   - list-rotated: per slot (v1 pairs: per listed part) rows with indices exactly 2..m+1
//     for the m surviving keys other than the most recently generated one; list: a row with
//     index 1 for every slot whose current key survives (rows for slots whose current key
//     was destroyed are tolerated: v2 keeps listing the ring); both must succeed.
//     Listing rows carry no identity beyond index and creation time; both implementations
//     enumerate rotated keys oldest first, so "the key shown with index i" is the (i-1)-th
//     oldest rotated survivor (the creation times shown are checked to be non-decreasing;
//     v2 times have 1 s resolution).
//   - destroy-rotated(i) for a listed i removes exactly that key; for i in {-1,0,1,max+1}
//     nothing is destroyed, no panic, and the call is rejected (the command line never
//     passes i<=1 to this API: findings for those indices carry their own key).
//   - destroy-current removes the current key and nothing else; without a current key it
//     changes nothing (error or success both accepted: v1 succeeds, v2 reports invalid state).
//   - generate: adds key #N+1, makes it current, keeps every survivor in order.
//   - no operation changes another slot; reads, reset and reopen change nothing stored.
//   - cached handle: when its answer equals the cache-less side handle's answer it is
//     judged like a cache-less store. Otherwise: a clean handle (just opened or reset, no key
//     changed since) must not differ at all; a stale handle must still offer every surviving
//     key it offered earlier (read-all ⊇ offered∩survivors; read-current must not fail for a
//     surviving current key it returned before) and must only return keys of that slot.
//   - differential: the same histories run on v1 and v2, memory and directory variants, must
//     give the same stored keys and the same answers wherever the oracle is deterministic.
//
// Storage capabilities (v1): the key store is written against the filesystem.Storage interface
// and is specified to work on storages without hard links too (backupHistoricalKeyFile: Link,
// else Copy; Acra's own Redis storage refuses Link). The same histories with the same oracle
// therefore also run on storages whose Link is refused on every call - kslab.Config.Link in
// {eperm, enotsup, exdev, plain (error without errno)} - over the in-memory storage and over the
// real filesystem.FileStorage in a real directory, cache off / 1 / unbounded, so that every
// rotated key reaches its history file through Storage.Copy. What a real FileStorage creates
// depends on the process umask, a process-wide setting: the check sets it explicitly (022, the
// usual one) instead of inheriting it, and the thorough tier repeats the real-directory
// configurations under umask 000 and 077 (one after the other, the umask is restored afterwards).
// Findings on a link-refusing storage carry the format class "v1+nolink" (a defect of the
// format itself is then reported under "v1" and under "v1+nolink"). The oracle is unchanged: it
// looks at what the key store offers and at the stored keys, never at file modes.
package main

import (
	"flag"
	"fmt"
	"os"
	"runtime/pprof"
	"sort"
	"strconv"
	"strings"
	"sync"
	"syscall"
	"time"

	"github.com/cossacklabs/acra/keystore"

	"verif/ev"
	"verif/fx"
	"verif/kslab"
	"verif/par"
)

type replayT struct {
	Config  kslab.Config `json:"config"`
	Slots   []kslab.Slot `json:"slots"`
	History []kslab.Op   `json:"history"`
	Op      *kslab.Op    `json:"op,omitempty"`    // judged operation; absent: state observation after History
	Umask   string       `json:"umask,omitempty"` // process umask (octal) the element ran under; absent: defaultUmask
	Pre     string       `json:"pre_state,omitempty"`
	Seen    string       `json:"observed,omitempty"`
}

type finding struct {
	key, msg string
}

type checker struct {
	r     *ev.Run
	cfg   kslab.Config
	slots []kslab.Slot
	quiet bool // differential pass: collect, do not report
}

func fmtKey(cfg kslab.Config, cacheSpecific bool) string {
	k := cfg.Format
	if cfg.LinkRefused() {
		k += "+nolink"
	}
	if cacheSpecific {
		k += "+cache"
		if cfg.ForeignWrites {
			k += "+foreign"
		}
	}
	return k
}

func errClass(err error) string {
	if err == nil {
		return "ok"
	}
	if p, ok := kslab.IsPanic(err); ok {
		return "panic@" + p.Site()
	}
	return "error"
}

func ints(l []int) string { return fmt.Sprint(l) }

func setOf(l []int) map[int]bool {
	m := map[int]bool{}
	for _, x := range l {
		m[x] = true
	}
	return m
}

func equalInts(a, b []int) bool {
	if len(a) != len(b) {
		return false
	}
	for i := range a {
		if a[i] != b[i] {
			return false
		}
	}
	return true
}

// ---------------------------------------------------------------- answers

// curAnswer / allAnswer are normalised answers used to compare main and side handle.
func curString(r kslab.Result) string {
	s := fmt.Sprintf("secret=%d/%s", r.CurSecret, errClass(r.CurSecretErr))
	if r.HasPublic {
		s += fmt.Sprintf(" public=%d/%s", r.CurPublic, errClass(r.CurPublicErr))
	}
	return s
}

func allString(r kslab.Result) string { return fmt.Sprintf("%v/%s", r.All, errClass(r.Err)) }

// judgeCur: base oracle for read-current from slot state pre.
func judgeCur(f string, pre kslab.SlotState, r kslab.Result, classes *[]string) (out []finding) {
	cl, feat := pre.Slot.Kind.Class(), pre.Feature()
	want := pre.ModelCurrent()
	part := func(name string, got int, err error) {
		base := fmt.Sprintf("C06/%s/%s/read-current/%s/", f, cl, feat)
		if p, ok := kslab.IsPanic(err); ok {
			out = append(out, finding{base + name + "-panic@" + p.Site(), fmt.Sprintf("read-current(%s) panicked: %s", pre.Slot, p.Value)})
			return
		}
		switch {
		case want != 0 && err != nil:
			out = append(out, finding{base + name + "-error-while-current-survives", fmt.Sprintf("read-current(%s) %s part failed (%v) although the most recently generated key #%d survives [state %s]", pre.Slot, name, err, want, pre)})
		case want != 0 && got != want:
			out = append(out, finding{base + name + "-not-the-newest-key", fmt.Sprintf("read-current(%s) %s part returned key #%d, the most recently generated surviving key is #%d [state %s]", pre.Slot, name, got, want, pre)})
		case want == 0 && err != nil:
			*classes = append(*classes, "cur:"+name+":no-current->error")
		case want == 0 && got != 0 && got == pre.NewestSurvivor():
			*classes = append(*classes, "cur:"+name+":no-current->promoted-newest-survivor")
		case want == 0:
			out = append(out, finding{base + name + "-returns-key-that-is-not-current", fmt.Sprintf("read-current(%s) %s part returned key #%d although the most recently generated key #%d was destroyed and the newest survivor is #%d [state %s]", pre.Slot, name, got, pre.N, pre.NewestSurvivor(), pre)})
		default:
			*classes = append(*classes, "cur:"+name+":newest")
		}
	}
	part("secret", r.CurSecret, r.CurSecretErr)
	if r.HasPublic {
		part("public", r.CurPublic, r.CurPublicErr)
	}
	return out
}

// judgeAll: base oracle for read-all.
func judgeAll(f string, pre kslab.SlotState, r kslab.Result, classes *[]string) (out []finding) {
	base := fmt.Sprintf("C06/%s/%s/read-all/%s/", f, pre.Slot.Kind.Class(), pre.Feature())
	want := pre.SurvivorsNewestFirst()
	if p, ok := kslab.IsPanic(r.Err); ok {
		return []finding{{base + "panic@" + p.Site(), fmt.Sprintf("read-all(%s) panicked: %s", pre.Slot, p.Value)}}
	}
	if r.Err != nil {
		if len(want) == 0 {
			*classes = append(*classes, "all:no-survivor->error")
			return nil
		}
		return []finding{{base + "error-while-keys-survive", fmt.Sprintf("read-all(%s) failed (%v) although keys %v survive: they are not offered for decryption [state %s]", pre.Slot, r.Err, want, pre)}}
	}
	if equalInts(r.All, want) {
		*classes = append(*classes, fmt.Sprintf("all:exact(%d)", len(want)))
		return nil
	}
	got, ws := setOf(r.All), setOf(want)
	var missing, extra []int
	for _, o := range want {
		if !got[o] {
			missing = append(missing, o)
		}
	}
	for _, o := range r.All {
		if !ws[o] {
			extra = append(extra, o)
		}
	}
	msg := fmt.Sprintf("read-all(%s) returned %v, survivors newest-first are %v [state %s]%s", pre.Slot, r.All, want, pre, foreignNote(r))
	switch {
	case len(missing) > 0:
		out = append(out, finding{base + "surviving-key-not-offered", msg})
	case len(extra) > 0:
		out = append(out, finding{base + "offers-key-that-does-not-survive", msg})
	default:
		out = append(out, finding{base + "wrong-order", msg})
	}
	return out
}

func foreignNote(r kslab.Result) string {
	if len(r.Foreign) == 0 {
		return ""
	}
	return " (values that are no key of this slot: " + strings.Join(r.Foreign, ", ") + ")"
}

// judgeCached handles read answers of a cached main handle that differ from the cache-less
// side handle's.
func judgeCached(cfg kslab.Config, pre kslab.State, sl kslab.SlotState, op kslab.Op, r, side kslab.Result, classes *[]string) (out []finding) {
	f := fmtKey(cfg, true)
	base := fmt.Sprintf("C06/%s/%s/%s/%s/", f, sl.Slot.Kind.Class(), opName(op), sl.Feature())
	render := curString
	if op.Code == kslab.OpReadAll {
		render = allString
	}
	if len(r.Foreign) > 0 {
		out = append(out, finding{base + "returns-value-that-is-no-key-of-the-slot", fmt.Sprintf("%s through the cached handle returned %s%s", op, render(r), foreignNote(r))})
	}
	if pre.Clean {
		out = append(out, finding{base + "clean-handle-differs-from-cacheless", fmt.Sprintf("%s through a handle that was just opened/reset (no key changed since) answered %s, a cache-less handle answers %s [state %s]", op, render(r), render(side), sl)})
		return out
	}
	offered := pre.OfferedBy(sl.Slot) // already restricted to survivors
	switch op.Code {
	case kslab.OpReadAll:
		got := setOf(r.All)
		var lost []int
		for _, o := range offered {
			if r.Err != nil || !got[o] {
				lost = append(lost, o)
			}
		}
		if len(lost) > 0 {
			how := "missing"
			if r.Err != nil {
				how = errClass(r.Err)
			}
			out = append(out, finding{base + "stops-offering-surviving-key:" + how, fmt.Sprintf("read-all(%s) through the cached handle answered %s; the handle offered keys %v earlier and they survive, now %v are no longer offered (cache-less answer: %s) [state %s]", sl.Slot, allString(r), offered, lost, allString(side), sl)})
		} else {
			*classes = append(*classes, "all:stale-but-monotone")
		}
	case kslab.OpReadCurrent:
		want := sl.ModelCurrent()
		was := setOf(offered)[want]
		if want != 0 && was && r.CurSecretErr != nil {
			out = append(out, finding{base + "stops-offering-surviving-key:" + errClass(r.CurSecretErr), fmt.Sprintf("read-current(%s) through the cached handle failed (%v) although it returned the surviving current key #%d earlier (cache-less answer: %s) [state %s]", sl.Slot, r.CurSecretErr, want, curString(side), sl)})
		} else {
			*classes = append(*classes, "cur:stale")
		}
	}
	return out
}

func opName(op kslab.Op) string {
	switch op.Code {
	case kslab.OpGenerate:
		return "generate"
	case kslab.OpReadCurrent:
		return "read-current"
	case kslab.OpReadAll:
		return "read-all"
	case kslab.OpListKeys:
		return "list-keys"
	case kslab.OpListRotated:
		return "list-rotated"
	case kslab.OpDestroyCurrent:
		return "destroy-current"
	case kslab.OpDestroyRotated:
		return "destroy-rotated"
	case kslab.OpResetCache:
		return "reset-cache"
	case kslab.OpReopen:
		return "reopen"
	}
	return op.Code
}

// judgeList: list / list-rotated against the stored state.
func judgeList(cfg kslab.Config, pre kslab.State, op kslab.Op, r kslab.Result, classes *[]string) (out []finding) {
	f := fmtKey(cfg, false)
	base := fmt.Sprintf("C06/%s/%s/", f, opName(op))
	// state feature of the whole store: worst slot feature matters for the key
	feat := "plain"
	for _, s := range pre.Slots {
		if s.N == 0 && s.Extra == "ring" {
			feat = "empty-key-ring"
		}
	}
	if p, ok := kslab.IsPanic(r.Err); ok {
		return []finding{{base + feat + "/panic@" + p.Site(), fmt.Sprintf("%s panicked: %s", op, p.Value)}}
	}
	if r.Err != nil {
		return []finding{{base + feat + "/error", fmt.Sprintf("%s failed: %v [state %s]", op, r.Err, pre.StorageCanon())}}
	}
	type rowKey struct {
		sl   kslab.Slot
		part string
	}
	rows := map[rowKey][]kslab.Listed{}
	for _, l := range r.Listed {
		if l.Slot.Kind < 0 {
			*classes = append(*classes, "list:unmapped-row")
			continue
		}
		rows[rowKey{l.Slot, l.Part}] = append(rows[rowKey{l.Slot, l.Part}], l)
	}
	parts := func(sl kslab.Slot) []string {
		if cfg.Format == "v1" && sl.Kind.IsPair() {
			return []string{"priv", "pub"}
		}
		return []string{""}
	}
	for _, s := range pre.Slots {
		kb := fmt.Sprintf("C06/%s/%s/%s/%s/", f, s.Slot.Kind.Class(), opName(op), s.Feature())
		for _, part := range parts(s.Slot) {
			got := rows[rowKey{s.Slot, part}]
			var idx []int
			for i, l := range got {
				idx = append(idx, l.Index)
				if i > 0 && l.Time.Before(got[i-1].Time) {
					ev.Fatalf("listing assumption broken: rows of %s %s are not in order of creation time (%v before %v); the oracle identifies 'the key shown with index i' by age order", s.Slot, part, got[i-1].Time, l.Time)
				}
				if l.Rotated != (op.Code == kslab.OpListRotated) {
					out = append(out, finding{kb + "row-with-wrong-state", fmt.Sprintf("%s shows a row of %s with index %d and rotated=%v", op, s.Slot, l.Index, l.Rotated)})
				}
			}
			if op.Code == kslab.OpListKeys {
				switch {
				case s.ModelCurrent() != 0 && !equalInts(idx, []int{1}):
					out = append(out, finding{kb + "current-key-not-listed-with-index-1", fmt.Sprintf("list shows indices %v for %s %s whose current key #%d survives [state %s]", idx, s.Slot, part, s.ModelCurrent(), s)})
				case s.ModelCurrent() == 0 && len(idx) > 0:
					*classes = append(*classes, "list:row-for-slot-without-current")
				default:
					*classes = append(*classes, fmt.Sprintf("list:%d-rows", len(idx)))
				}
				continue
			}
			var want []int
			for i := range s.Rotated() {
				want = append(want, i+2)
			}
			if !equalInts(idx, want) {
				out = append(out, finding{kb + "rows-do-not-match-rotated-survivors", fmt.Sprintf("list-rotated shows indices %v for %s %s; the surviving rotated keys are %v, expected indices %v [state %s]", idx, s.Slot, part, s.Rotated(), want, s)})
			} else {
				*classes = append(*classes, fmt.Sprintf("listrot:%d-rows", len(idx)))
			}
		}
	}
	return out
}

// ---------------------------------------------------------------- transitions

// indexClass names the class of a destroy-rotated index relative to the listing.
func indexClass(s kslab.SlotState, i int) string {
	m := len(s.Rotated())
	switch {
	case i >= 2 && i <= m+1:
		return "listed-index"
	case i <= 1:
		return "index-below-2"
	}
	return "index-above-listing"
}

func sideRead(lab *kslab.Lab, op kslab.Op) kslab.Result {
	// the same read through the cache-less side handle, normalised by the lab's tracker
	res := kslab.Result{Op: op}
	sl := op.Slot()
	switch op.Code {
	case kslab.OpReadCurrent:
		a := lab.S.Side.ReadCurrent(sl)
		res.HasPublic, res.CurSecretErr, res.CurPublicErr = a.HasPublic, a.SecretErr, a.PublicErr
		if a.SecretErr == nil {
			res.CurSecret = lab.T.SecretOrd(sl, a.Secret)
		}
		if a.HasPublic && a.PublicErr == nil {
			res.CurPublic = lab.T.PublicOrd(sl, a.Public)
		}
	case kslab.OpReadAll:
		vals, err := lab.S.Side.ReadAll(sl)
		res.Err = err
		for _, v := range vals {
			res.All = append(res.All, lab.T.SecretOrd(sl, v))
		}
	}
	return res
}

// judgeRead judges one read answer (cur / all / list / listrot) given the state it was made in.
func judgeRead(cfg kslab.Config, pre kslab.State, op kslab.Op, r kslab.Result, lab *kslab.Lab, classes *[]string) []finding {
	if r.Unsupported {
		*classes = append(*classes, op.Code+":unsupported-by-api")
		return nil
	}
	switch op.Code {
	case kslab.OpListKeys, kslab.OpListRotated:
		return judgeList(cfg, pre, op, r, classes)
	}
	sl := pre.Slot(op.Slot())
	if cfg.Cached() {
		side := sideRead(lab, op)
		same := false
		if op.Code == kslab.OpReadAll {
			same = allString(r) == allString(side)
		} else {
			same = curString(r) == curString(side)
		}
		if !same {
			return judgeCached(cfg, pre, sl, op, r, side, classes)
		}
	}
	f := fmtKey(cfg, false)
	var out []finding
	if len(r.Foreign) > 0 {
		out = append(out, finding{fmt.Sprintf("C06/%s/%s/%s/%s/returns-value-that-is-no-key-of-the-slot", f, sl.Slot.Kind.Class(), opName(op), sl.Feature()), fmt.Sprintf("%s returned%s", op, foreignNote(r))})
	}
	if op.Code == kslab.OpReadAll {
		return append(out, judgeAll(f, sl, r, classes)...)
	}
	return append(out, judgeCur(f, sl, r, classes)...)
}

// judgeTransition judges one executed operation: answer and post-state.
func judgeTransition(cfg kslab.Config, pre kslab.State, op kslab.Op, r kslab.Result, post kslab.State, lab *kslab.Lab, classes *[]string) (out []finding) {
	f := fmtKey(cfg, false)
	if r.Unsupported {
		*classes = append(*classes, op.Code+":unsupported-by-api")
		if post.StorageCanon() != pre.StorageCanon() {
			out = append(out, finding{fmt.Sprintf("C06/%s/%s/%s/unsupported-operation-changed-state", f, op.Kind.Class(), opName(op)), "state changed"})
		}
		return out
	}
	if r.Problem != "" {
		out = append(out, finding{fmt.Sprintf("C06/%s/%s/%s/unexpected-key-material", f, op.Kind.Class(), opName(op)), fmt.Sprintf("%s: %s", op, r.Problem)})
	}
	for _, s := range post.Slots {
		if s.Anomaly != "" && pre.Slot(s.Slot).Anomaly == "" {
			out = append(out, finding{fmt.Sprintf("C06/%s/%s/%s/stored-key-unreadable-afterwards", f, s.Slot.Kind.Class(), opName(op)), fmt.Sprintf("after %s the stored keys of %s are damaged: %s", op, s.Slot, s.Anomaly)})
		}
	}
	// slots the operation does not address must not change
	for _, s := range pre.Slots {
		if !op.Global() && s.Slot == op.Slot() {
			continue
		}
		if p := post.Slot(s.Slot); !p.SameKeys(s) {
			out = append(out, finding{fmt.Sprintf("C06/%s/%s/%s/changes-keys-of-another-slot", f, op.Kind.Class(), opName(op)), fmt.Sprintf("%s changed %s from [%s] to [%s]", op, s.Slot, s, p)})
		}
	}
	if op.Global() {
		switch op.Code {
		case kslab.OpResetCache, kslab.OpReopen:
			if r.Err != nil {
				out = append(out, finding{fmt.Sprintf("C06/%s/%s/%s", f, opName(op), errClass(r.Err)), fmt.Sprintf("%s failed: %v", op, r.Err)})
			} else {
				*classes = append(*classes, op.Code+":ok")
			}
			return out
		}
		return append(out, judgeRead(cfg, pre, op, r, lab, classes)...)
	}
	ps, qs := pre.Slot(op.Slot()), post.Slot(op.Slot())
	cl := op.Kind.Class()
	feat := ps.Feature()
	switch op.Code {
	case kslab.OpReadCurrent, kslab.OpReadAll:
		if !qs.SameKeys(ps) {
			out = append(out, finding{fmt.Sprintf("C06/%s/%s/%s/%s/read-changed-stored-keys", f, cl, opName(op), feat), fmt.Sprintf("%s changed the stored keys from [%s] to [%s]", op, ps, qs)})
		}
		return append(out, judgeRead(cfg, pre, op, r, lab, classes)...)
	case kslab.OpGenerate:
		base := fmt.Sprintf("C06/%s/%s/generate/%s/", f, cl, feat)
		exp, _ := ps.After(op)
		switch {
		case r.Err != nil:
			out = append(out, finding{base + errClass(r.Err), fmt.Sprintf("%s failed: %v [state %s]", op, r.Err, ps)})
			if !qs.SameKeys(ps) {
				out = append(out, finding{base + "failed-but-changed-keys", fmt.Sprintf("%s failed (%v) and left [%s], before [%s]", op, r.Err, qs, ps)})
			}
		case !qs.SameKeys(exp):
			out = append(out, finding{base + "wrong-keys-afterwards", fmt.Sprintf("after %s the store holds [%s], expected [%s] (new key #%d current, all survivors kept in order) [before: %s]", op, qs, exp, exp.N, ps)})
		default:
			*classes = append(*classes, "gen:ok")
		}
	case kslab.OpDestroyCurrent:
		base := fmt.Sprintf("C06/%s/%s/destroy-current/%s/", f, cl, feat)
		exp, can := ps.After(op)
		if p, ok := kslab.IsPanic(r.Err); ok {
			out = append(out, finding{base + "panic@" + p.Site(), fmt.Sprintf("%s panicked: %s", op, p.Value)})
		}
		switch {
		case can && qs.SameKeys(exp):
			*classes = append(*classes, "dcur:removed-current:"+errClass(r.Err))
		case can && qs.SameKeys(ps):
			out = append(out, finding{base + "current-key-not-destroyed", fmt.Sprintf("%s returned %v and destroyed nothing [state %s]", op, r.Err, ps)})
		case can:
			out = append(out, finding{base + "destroyed-other-than-current", fmt.Sprintf("after %s the store holds [%s], expected [%s] (only current key #%d removed) [before: %s]", op, qs, exp, ps.ModelCurrent(), ps)})
		case !qs.SameKeys(ps):
			out = append(out, finding{base + "destroyed-a-key-without-current", fmt.Sprintf("%s with no surviving current key changed [%s] to [%s]", op, ps, qs)})
		default:
			*classes = append(*classes, "dcur:no-current:"+errClass(r.Err))
		}
	case kslab.OpDestroyRotated:
		ic := indexClass(ps, op.Index)
		base := fmt.Sprintf("C06/%s/%s/destroy-rotated/%s/", f, cl, ic)
		exp, can := ps.After(op)
		if p, ok := kslab.IsPanic(r.Err); ok {
			out = append(out, finding{base + "panic@" + p.Site(), fmt.Sprintf("%s panicked: %s [listing shows indices 2..%d; state %s]", op, p.Value, len(ps.Rotated())+1, ps)})
		}
		switch {
		case can && qs.SameKeys(exp):
			*classes = append(*classes, "drot:removed-listed-key:"+errClass(r.Err))
		case can && qs.SameKeys(ps):
			if _, isPanic := kslab.IsPanic(r.Err); !isPanic {
				out = append(out, finding{base + "listed-key-not-destroyed", fmt.Sprintf("%s returned %v and destroyed nothing; index %d is listed (rotated keys oldest first: %v) [state %s]", op, r.Err, op.Index, ps.Rotated(), ps)})
			}
		case can:
			out = append(out, finding{base + "destroyed-other-key-than-listed", fmt.Sprintf("%s: the listing shows key #%d with index %d (rotated keys oldest first: %v) but afterwards the store holds [%s], expected [%s]", op, ps.ListedIndexKey(op.Index), op.Index, ps.Rotated(), qs, exp)})
		case !qs.SameKeys(ps):
			out = append(out, finding{base + "destroyed-a-key", fmt.Sprintf("%s: index %d is not in the listing (indices 2..%d) but the store changed from [%s] to [%s]", op, op.Index, len(ps.Rotated())+1, ps, qs)})
		case r.Err == nil:
			out = append(out, finding{base + "not-rejected", fmt.Sprintf("%s: index %d is not in the listing (indices 2..%d) and the call reported success", op, op.Index, len(ps.Rotated())+1)})
		default:
			if _, isPanic := kslab.IsPanic(r.Err); !isPanic {
				*classes = append(*classes, "drot:"+ic+":rejected")
			}
		}
	}
	return out
}

// observeState runs every read of the alphabet (and the probes) on a live lab that is in
// state st and judges the answers. It perturbs the lab's cache (the lab is discarded).
func observeState(cfg kslab.Config, lab *kslab.Lab, classes *[]string) (out []finding, evals int) {
	var ops []kslab.Op
	for _, sl := range lab.Slots {
		ops = append(ops, kslab.Op{Code: kslab.OpReadCurrent, Kind: sl.Kind, Client: sl.Client}, kslab.Op{Code: kslab.OpReadAll, Kind: sl.Kind, Client: sl.Client})
	}
	ops = append(ops, kslab.Op{Code: kslab.OpListKeys}, kslab.Op{Code: kslab.OpListRotated})
	for _, op := range ops {
		pre := lab.State()
		r := lab.Apply(op)
		evals++
		fs := judgeRead(cfg, pre, op, r, lab, classes)
		out = append(out, fs...)
		if r.Unsupported && op.Code != kslab.OpReadAll {
			continue
		}
		// probes: old data stays readable with what the store offers
		sl := pre.Slot(op.Slot())
		f := fmtKey(cfg, false)
		switch {
		case op.Code == kslab.OpReadAll && !r.Unsupported:
			if r.Err != nil {
				*classes = append(*classes, "probe:skipped(read-all-failed)")
				continue
			}
			for _, ord := range r.All {
				if ord <= 0 || !sl.Survives(ord) {
					continue
				}
				evals++
				p, err := lab.T.Probe(sl.Slot, ord)
				if err != nil {
					ev.Fatalf("probe: %v", err)
				}
				if kslab.ProbeReadable(sl.Slot.Kind, p, r.AllVals) {
					*classes = append(*classes, "probe:readable")
				} else {
					out = append(out, finding{fmt.Sprintf("C06/%s/%s/probe/%s/old-data-unreadable", f, sl.Slot.Kind.Class(), sl.Feature()), fmt.Sprintf("a value protected under key #%d of %s cannot be read with the keys read-all returned (%v) [state %s]", ord, sl.Slot, r.All, sl)})
				}
			}
		case op.Code == kslab.OpReadCurrent && !kslab.Supports(kslab.OpReadAll, op.Kind):
			if r.CurSecretErr != nil || r.CurSecret <= 0 {
				continue
			}
			evals++
			p, err := lab.T.Probe(sl.Slot, r.CurSecret)
			if err != nil {
				ev.Fatalf("probe: %v", err)
			}
			if kslab.ProbeReadable(sl.Slot.Kind, p, [][]byte{r.CurVal}) {
				*classes = append(*classes, "probe:matches")
			} else {
				out = append(out, finding{fmt.Sprintf("C06/%s/%s/probe/%s/hmac-differs", f, sl.Slot.Kind.Class(), sl.Feature()), fmt.Sprintf("the HMAC under key #%d of %s differs from the one computed when the key was generated", r.CurSecret, sl.Slot)})
			}
		}
	}
	return out, evals
}

// enabledOps is the alphabet in a state.
func enabledOps(lab *kslab.Lab) []kslab.Op {
	st := lab.State()
	var ops []kslab.Op
	shown := map[kslab.Slot]map[int]bool{}
	if rows, err := lab.S.Side.ListRotated(); err == nil {
		for _, l := range rows {
			if shown[l.Slot] == nil {
				shown[l.Slot] = map[int]bool{}
			}
			shown[l.Slot][l.Index] = true
		}
	}
	for _, s := range st.Slots {
		k, c := s.Slot.Kind, s.Slot.Client
		ops = append(ops, kslab.Op{Code: kslab.OpGenerate, Kind: k, Client: c}, kslab.Op{Code: kslab.OpReadCurrent, Kind: k, Client: c})
		if kslab.Supports(kslab.OpReadAll, k) {
			ops = append(ops, kslab.Op{Code: kslab.OpReadAll, Kind: k, Client: c})
		}
		if kslab.Supports(kslab.OpDestroyCurrent, k) {
			ops = append(ops, kslab.Op{Code: kslab.OpDestroyCurrent, Kind: k, Client: c})
			m := len(s.Rotated())
			idx := map[int]bool{-1: true, 0: true, 1: true, m + 2: true}
			for i := 2; i <= m+1; i++ {
				idx[i] = true
			}
			for i := range shown[s.Slot] {
				idx[i] = true
			}
			var l []int
			for i := range idx {
				l = append(l, i)
			}
			sort.Ints(l)
			for _, i := range l {
				ops = append(ops, kslab.Op{Code: kslab.OpDestroyRotated, Kind: k, Client: c, Index: i})
			}
		}
	}
	ops = append(ops, kslab.Op{Code: kslab.OpListKeys}, kslab.Op{Code: kslab.OpListRotated}, kslab.Op{Code: kslab.OpResetCache}, kslab.Op{Code: kslab.OpReopen})
	return ops
}

// ---------------------------------------------------------------- exploration of one space

type space struct {
	cfg   kslab.Config
	slots []kslab.Slot
	depth int
	umask string // octal process umask for this space; "" = defaultUmask
}

// cfgName names configuration and umask, e.g. "v1-dir-nocache-nolink-eperm-umask000".
func (s space) cfgName() string {
	if s.umask != "" {
		return s.cfg.Name() + "-umask" + s.umask
	}
	return s.cfg.Name()
}

func (s space) name() string {
	var n []string
	for _, sl := range s.slots {
		n = append(n, sl.String())
	}
	return s.cfgName() + "[" + strings.Join(n, ",") + "]"
}

// defaultUmask is the process umask of the whole run (set explicitly in main, never inherited).
const defaultUmask = "022"

// setUmask sets the process umask (process-wide: callers run one umask at a time) and returns
// the function that restores the previous one.
func setUmask(octal string) func() {
	if octal == "" {
		octal = defaultUmask
	}
	m, err := strconv.ParseUint(octal, 8, 9)
	if err != nil {
		ev.Fatalf("umask %q: %v", octal, err)
	}
	old := syscall.Umask(int(m))
	return func() { syscall.Umask(old) }
}

var stopProfile = func() {}

type sysT = kslab.System[kslab.Op, kslab.Result]

func (c *checker) report(fs []finding, payload replayT) {
	for _, f := range fs {
		c.r.Violation(f.key, f.msg, payload)
	}
}

func (c *checker) classes(cl []string) {
	for _, x := range cl {
		c.r.Class(x, 1)
		c.r.Distinct(c.cfg.Format + "|" + x)
	}
}

func explore(r *ev.Run, sp space, histories *[][]kslab.Op) kslab.Stats {
	c := &checker{r: r, cfg: sp.cfg, slots: sp.slots}
	defer setUmask(sp.umask)()
	t0 := time.Now()
	var hmu sync.Mutex
	ex := kslab.Explorer[kslab.Op, kslab.Result]{
		New: func() (sysT, error) { return kslab.NewLab(sp.cfg, sp.slots) },
		Ops: func(s sysT) []kslab.Op { return enabledOps(s.(*kslab.Lab)) },
		Before: func(s sysT) interface{} {
			return s.(*kslab.Lab).State()
		},
		Oracle: func(t kslab.Transition[kslab.Op, kslab.Result]) {
			lab := t.Sys.(*kslab.Lab)
			pre := t.PreSys.(kslab.State)
			post := lab.State()
			var cl []string
			fs := judgeTransition(sp.cfg, pre, t.Op, t.Result, post, lab, &cl)
			r.Eval(2) // answer + post-state
			c.classes(cl)
			if len(fs) > 0 {
				op := t.Op
				c.report(fs, replayT{Config: sp.cfg, Slots: sp.slots, History: t.History, Op: &op, Pre: t.Pre, Seen: t.Post, Umask: sp.umask})
			}
			if t.Op.Code == kslab.OpResetCache || t.Op.Code == kslab.OpReopen {
				// "shows the same as soon as the cache is reset": observe right away, also at the depth bound
				var cl2 []string
				fs, n := observeState(sp.cfg, lab, &cl2)
				r.Eval(n)
				c.classes(cl2)
				if len(fs) > 0 {
					h := append(append([]kslab.Op(nil), t.History...), t.Op)
					c.report(fs, replayT{Config: sp.cfg, Slots: sp.slots, History: h, Pre: t.Post, Umask: sp.umask})
				}
			}
		},
		OnState: func(s sysT, h []kslab.Op, canon string) {
			lab := s.(*kslab.Lab)
			r.Distinct(sp.cfgName() + "|" + canon)
			if len(h) > 0 && (len(h) == sp.depth || len(h)%2 == 0) {
				r.Sample(map[string]interface{}{"config": sp.cfgName(), "history": kslab.HistoryString(h), "state": canon})
			}
			if histories != nil {
				hmu.Lock()
				*histories = append(*histories, append([]kslab.Op(nil), h...))
				hmu.Unlock()
			}
			var cl []string
			fs, n := observeState(sp.cfg, lab, &cl)
			r.Eval(n)
			c.classes(cl)
			if len(fs) > 0 {
				c.report(fs, replayT{Config: sp.cfg, Slots: sp.slots, History: h, Pre: canon, Umask: sp.umask})
			}
		},
		MaxDepth: sp.depth,
		Stop:     r.Expired,
		OnLevel: func(d, ns, nt int) {
			if os.Getenv("C06_TRACE") != "" {
				fmt.Fprintf(os.Stderr, "%s level %d: %d new states, %d transitions, t=%v\n", sp.name(), d, ns, nt, time.Since(t0))
			}
		},
	}
	st, err := ex.Run()
	if err != nil {
		ev.Fatalf("%s: %v", sp.name(), err)
	}
	r.States(st.States)
	r.Transitions(st.Transitions)
	r.Traces(st.Traces)
	if st.Capped {
		r.Capped(fmt.Sprintf("%s: wall budget hit after depth %d of %d", sp.name(), st.MaxDepth, sp.depth))
	}
	return st
}

// ---------------------------------------------------------------- differential pass

// differential replays every history on all given configurations in lock step and compares
// stored keys and deterministic answers; disagreements that are not explained by a
// violation the model oracle reports for one of the sides are violations of their own.
func differential(r *ev.Run, cfgs []kslab.Config, slots []kslab.Slot, hists [][]kslab.Op) (compared, agree, explained int) {
	strip := func(st kslab.State) string {
		parts := []string{}
		for _, s := range st.Slots {
			s.Extra = ""
			parts = append(parts, s.String())
		}
		return strings.Join(parts, "; ")
	}
	answer := func(op kslab.Op, res kslab.Result, pre kslab.SlotState) string {
		switch op.Code {
		case kslab.OpReadCurrent:
			if pre.ModelCurrent() == 0 {
				return "cur:open" // error or promotion: the statement leaves it open
			}
			return "cur:" + curString(res)
		case kslab.OpReadAll:
			if len(pre.Surv) == 0 {
				return "all:open"
			}
			return "all:" + allString(res)
		case kslab.OpListRotated:
			var rows []string
			for _, l := range res.Listed {
				if l.Part == "pub" {
					continue // v1 lists pairs per file
				}
				rows = append(rows, fmt.Sprintf("%s#%d", l.Slot, l.Index))
			}
			sort.Strings(rows)
			return "listrot:" + strings.Join(rows, ",") + "/" + errClass(res.Err)
		}
		return op.Code
	}
	seenHist := map[string]bool{}
	var uniq [][]kslab.Op
	for _, h := range hists {
		k := kslab.HistoryString(h)
		if !seenHist[k] {
			seenHist[k] = true
			uniq = append(uniq, h)
		}
	}
	sort.Slice(uniq, func(i, j int) bool { return kslab.HistoryString(uniq[i]) < kslab.HistoryString(uniq[j]) })
	var mu sync.Mutex
	run := func(i int) {
		h := uniq[i]
		labs := make([]*kslab.Lab, len(cfgs))
		for j, cfg := range cfgs {
			l, err := kslab.NewLab(cfg, slots)
			if err != nil {
				ev.Fatalf("differential: %v", err)
			}
			labs[j] = l
			defer l.Close()
		}
		// extend the history by the reads so that answers are compared in the final state too
		ops := append([]kslab.Op(nil), h...)
		for _, sl := range slots {
			ops = append(ops, kslab.Op{Code: kslab.OpReadCurrent, Kind: sl.Kind, Client: sl.Client}, kslab.Op{Code: kslab.OpReadAll, Kind: sl.Kind, Client: sl.Client})
		}
		ops = append(ops, kslab.Op{Code: kslab.OpListRotated})
		for step, op := range ops {
			obs := make([]string, len(cfgs))
			posts := make([]string, len(cfgs))
			bad := make([]bool, len(cfgs))
			for j, l := range labs {
				pre := l.State()
				res := l.Apply(op)
				post := l.State()
				var cl []string
				bad[j] = len(judgeTransition(cfgs[j], pre, op, res, post, l, &cl)) > 0
				posts[j] = strip(post)
				if res.Unsupported {
					obs[j] = "unsupported"
				} else {
					obs[j] = answer(op, res, pre.Slot(op.Slot())) + " -> " + strip(post)
				}
			}
			for j := 1; j < len(cfgs); j++ {
				mu.Lock()
				compared++
				switch {
				case obs[j] == obs[0]:
					agree++
					r.Class("diff:agree", 1)
				case bad[j] || bad[0]:
					explained++
					r.Class("diff:differs-where-the-model-oracle-already-reports", 1)
				default:
					payload := replayT{Config: cfgs[j], Slots: slots, History: ops[:step], Op: &ops[step], Seen: obs[j], Pre: obs[0]}
					r.Violation(fmt.Sprintf("C06/diff/%s-vs-%s/%s/%s", cfgs[0].Name(), cfgs[j].Name(), op.Kind.Class(), opName(op)),
						fmt.Sprintf("after %s, %s: %s observes [%s] but %s observes [%s]", kslab.HistoryString(ops[:step]), op, cfgs[0].Name(), obs[0], cfgs[j].Name(), obs[j]), payload)
				}
				mu.Unlock()
				r.Eval(1)
			}
			// once the stored states have diverged (a reported defect), later steps compare nothing useful
			diverged := false
			for j := 1; j < len(cfgs); j++ {
				if posts[j] != posts[0] {
					diverged = true
				}
			}
			if diverged {
				break
			}
		}
		r.Traces(len(cfgs))
	}
	par.Do(len(uniq), r.Expired, run)
	return
}

// ---------------------------------------------------------------- main

func replay(r *ev.Run) {
	var c replayT
	r.LoadReplay(&c)
	kslab.SetRandMode(kslab.RandPerStore) // one lab: its own deterministic stream
	defer setUmask(c.Umask)()
	lab, err := kslab.NewLab(c.Config, c.Slots)
	if err != nil {
		ev.Fatalf("replay: %v", err)
	}
	defer lab.Close()
	ck := &checker{r: r, cfg: c.Config, slots: c.Slots}
	fmt.Printf("replay on %s (umask %s), slots %v\n", c.Config.Name(), map[bool]string{true: defaultUmask, false: c.Umask}[c.Umask == ""], c.Slots)
	fmt.Printf("  initial: %s\n", lab.Canon())
	ops := append([]kslab.Op(nil), c.History...)
	if c.Op != nil {
		ops = append(ops, *c.Op)
	}
	for i, op := range ops {
		pre := lab.State()
		res := lab.Apply(op)
		post := lab.State()
		fmt.Printf("  %-34s err=%v cur=%s all=%s rows=%d\n      -> %s\n", op, res.Err, curString(res), allString(res), len(res.Listed), post.Canon())
		r.Transitions(1)
		if i >= len(c.History) || c.Op == nil && i == len(ops)-1 {
			var cl []string
			fs := judgeTransition(c.Config, pre, op, res, post, lab, &cl)
			r.Eval(2)
			ck.report(fs, c)
			for _, f := range fs {
				fmt.Printf("      !! %s :: %s\n", f.key, f.msg)
			}
		}
	}
	if c.Op == nil {
		var cl []string
		fs, n := observeState(c.Config, lab, &cl)
		r.Eval(n)
		ck.report(fs, c)
		for _, f := range fs {
			fmt.Printf("      !! (state observation) %s :: %s\n", f.key, f.msg)
		}
	}
	r.States(1)
	r.Traces(1)
	r.Finish()
}

func main() {
	selftest := flag.Bool("selftest", false, "run the differential self-test of kslab.MemFS against the real FileStorage and exit")
	onlyCfg := flag.String("configs", "", "comma-separated configuration names to explore (default: all of the tier)")
	depthFlag := flag.Int("depth", 0, "override the history depth bound")
	foreign := flag.Bool("foreign", false, "thorough: also explore a cached v1 handle whose keys are changed through a second handle (outside the property's quantifier; findings are informational)")
	cpuProf := flag.String("cpuprofile", "", "write a CPU profile (harness tuning)")
	r := ev.New("C06", "model_checking")
	fx.Quiet()
	if os.Getenv("VERIF_SCRATCH") == "" {
		if fi, err := os.Stat("/dev/shm"); err == nil && fi.IsDir() {
			os.Setenv("VERIF_SCRATCH", "/dev/shm") // directory-backed variants fsync on every write
		}
	}
	kslab.InstallRand()
	// what a real FileStorage creates depends on the process umask: never inherit it
	setUmask(defaultUmask)
	if *cpuProf != "" {
		f, err := os.Create(*cpuProf)
		if err != nil {
			ev.Fatalf("cpuprofile: %v", err)
		}
		pprof.StartCPUProfile(f)
		stopProfile = func() { pprof.StopCPUProfile(); f.Close() }
	}
	if *selftest {
		dir := fx.Scratch("c06-selftest")
		defer os.RemoveAll(dir)
		seqs, ops, err := kslab.SelfTestMemFS(dir, 300, r.Thorough())
		if err != nil {
			os.RemoveAll(dir)
			ev.Fatalf("MemFS differs from the real FileStorage: %v", err)
		}
		fmt.Printf("kslab.MemFS self-test: %d operation sequences, %d operations agree with filesystem.FileStorage\n", seqs, ops)
		os.RemoveAll(dir)
		os.Exit(0)
	}
	if r.Replay != "" {
		replay(r)
	}

	want := map[string]bool{}
	for _, n := range strings.Split(*onlyCfg, ",") {
		if n != "" {
			want[n] = true
		}
	}
	use := func(c kslab.Config) bool { return len(want) == 0 || want[c.Name()] }

	perConfig := map[string]map[string]int{}
	note := func(sp space, st kslab.Stats) {
		m := perConfig[sp.cfgName()]
		if m == nil {
			m = map[string]int{}
			perConfig[sp.cfgName()] = m
		}
		m["states"] += st.States
		m["transitions"] += st.Transitions
		m["traces"] += st.Traces
		if st.MaxDepth > m["max_depth"] {
			m["max_depth"] = st.MaxDepth
		}
	}

	// tier 1 (both tiers): one kind at a time, one client, every standard configuration
	depth1 := 5
	if r.Thorough() {
		depth1 = 7
	}
	if *depthFlag > 0 {
		depth1 = *depthFlag
	}
	// the same store opened with the key directory written with a trailing separator: cache keys
	// and file paths are then derived from a non-canonical spelling
	spelledCfg := kslab.Config{Format: "v1", Storage: "mem", Cache: keystore.InfiniteCacheSize, DirSpelling: "slash"}
	// v1 on storages that refuse hard links (every rotated key reaches its history file through
	// Storage.Copy): quick: eperm on {mem cache off, mem cache unbounded, real directory cache off} at the
	// full depth and the other ways of refusing on the real directory at depth 3 (the way of refusing
	// can only matter to the rotation step itself); thorough: the whole product refusal x storage
	// x cache {off, 1, unbounded} at the quick depth, eperm on {mem, dir} cache-less and dir
	// unbounded at the full depth, and the real-directory configurations (links supported and
	// refused) under umask 000 and 077.
	type tier1 struct {
		cfg   kslab.Config
		depth int
		umask string
	}
	var plan1 []tier1
	for _, cfg := range append(append([]kslab.Config{}, kslab.StandardConfigs...), spelledCfg) {
		plan1 = append(plan1, tier1{cfg, depth1, ""})
	}
	noLink := func(storage string, cache int, how string) kslab.Config {
		return kslab.Config{Format: "v1", Storage: storage, Cache: cache, Link: how}
	}
	const refusalDepth = 3
	depthOr := func(d int) int {
		if *depthFlag > 0 {
			return *depthFlag
		}
		return d
	}
	var noLinkSpaces []map[string]interface{}
	if !r.Thorough() {
		for _, c := range []kslab.Config{noLink("mem", keystore.WithoutCache, "eperm"), noLink("mem", keystore.InfiniteCacheSize, "eperm"), noLink("dir", keystore.WithoutCache, "eperm")} {
			plan1 = append(plan1, tier1{c, depth1, ""})
		}
		for _, how := range kslab.LinkRefusals[1:] {
			plan1 = append(plan1, tier1{noLink("dir", keystore.WithoutCache, how), depthOr(refusalDepth), ""})
		}
	} else {
		for _, c := range []kslab.Config{noLink("mem", keystore.WithoutCache, "eperm"), noLink("dir", keystore.WithoutCache, "eperm"), noLink("dir", keystore.InfiniteCacheSize, "eperm")} {
			plan1 = append(plan1, tier1{c, depth1, ""})
		}
		for _, how := range kslab.LinkRefusals {
			for _, storage := range []string{"mem", "dir"} {
				for _, cache := range []int{keystore.WithoutCache, 1, keystore.InfiniteCacheSize} {
					c := noLink(storage, cache, how)
					if how == "eperm" && (cache == keystore.WithoutCache || storage == "dir" && cache == keystore.InfiniteCacheSize) {
						continue // already explored at the full depth
					}
					plan1 = append(plan1, tier1{c, depthOr(5), ""})
				}
			}
		}
		for _, um := range []string{"000", "077"} {
			plan1 = append(plan1, tier1{kslab.StandardConfigs[3], depthOr(5), um}, tier1{noLink("dir", keystore.WithoutCache, "eperm"), depthOr(5), um}, tier1{noLink("dir", keystore.InfiniteCacheSize, "eperm"), depthOr(5), um})
		}
	}
	for _, p := range plan1 {
		if p.cfg.LinkRefused() || p.umask != "" {
			noLinkSpaces = append(noLinkSpaces, map[string]interface{}{"config": space{cfg: p.cfg, umask: p.umask}.cfgName(), "depth": p.depth})
		}
	}
	diffCfgs := []kslab.Config{kslab.StandardConfigs[0], kslab.StandardConfigs[3], kslab.StandardConfigs[4], kslab.StandardConfigs[5],
		noLink("mem", keystore.WithoutCache, "eperm"), noLink("dir", keystore.WithoutCache, "eperm")}
	diffCompared, diffAgree, diffExplained := 0, 0, 0
	for _, k := range kslab.AllKinds {
		slots := []kslab.Slot{kslab.SlotOf(k, kslab.Alpha)}
		var hists [][]kslab.Op
		for _, p := range plan1 {
			cfg := p.cfg
			if !use(cfg) || r.Expired() {
				continue
			}
			var hp *[][]kslab.Op
			if !cfg.Cached() && cfg.Storage == "mem" && !cfg.LinkRefused() {
				hp = &hists
			}
			sp := space{cfg, slots, p.depth, p.umask}
			note(sp, explore(r, sp, hp))
		}
		if len(want) == 0 && !r.Expired() {
			a, b, c := differential(r, diffCfgs, slots, hists)
			diffCompared, diffAgree, diffExplained = diffCompared+a, diffAgree+b, diffExplained+c
		}
	}
	bounds := map[string]interface{}{"single_kind": map[string]interface{}{"kinds": len(kslab.AllKinds), "clients": 1, "depth": depth1, "configs": len(kslab.StandardConfigs)}}
	bounds["single_kind_link_refusing_storage_and_umask"] = noLinkSpaces

	if r.Thorough() {
		// tier 2: two kinds x two clients interleaved
		memCfgs := []kslab.Config{
			{Format: "v1", Storage: "mem", Cache: keystore.WithoutCache},
			{Format: "v2", Storage: "mem"},
			{Format: "v1", Storage: "mem", Cache: 1},
			{Format: "v1", Storage: "mem", Cache: keystore.InfiniteCacheSize},
			noLink("mem", keystore.InfiniteCacheSize, "plain"),
		}
		if *foreign {
			memCfgs = append(memCfgs, kslab.Config{Format: "v1", Storage: "mem", Cache: keystore.InfiniteCacheSize, ForeignWrites: true})
		}
		dirCfgs := []kslab.Config{{Format: "v1", Storage: "dir", Cache: keystore.WithoutCache}, {Format: "v2", Storage: "dir"}, noLink("dir", keystore.WithoutCache, "eperm")}
		pairs := [][2]kslab.Kind{{kslab.StoragePair, kslab.StorageSym}, {kslab.PoisonPair, kslab.PoisonSym}, {kslab.StorageSym, kslab.SearchHMAC}, {kslab.StoragePair, kslab.PoisonSym}, {kslab.SearchHMAC, kslab.AuditLog}}
		clients := []string{kslab.Alpha, kslab.Bravo}
		type plan struct {
			cfgs  []kslab.Config
			depth int
		}
		plans := []plan{{memCfgs, 6}, {dirCfgs, 5}, {memCfgs[:2], 7}}
		if *depthFlag > 0 {
			plans = []plan{{memCfgs, *depthFlag}}
		}
		var t2 []map[string]interface{}
		for _, pl := range plans {
			for _, kp := range pairs {
				slots := kslab.Slots(kp[:], clients)
				for _, cfg := range pl.cfgs {
					if !use(cfg) {
						continue
					}
					if r.Expired() {
						r.Capped(fmt.Sprintf("wall budget: %s %v depth %d not started", cfg.Name(), kp, pl.depth))
						continue
					}
					sp := space{cfg: cfg, slots: slots, depth: pl.depth}
					st := explore(r, sp, nil)
					note(sp, st)
					t2 = append(t2, map[string]interface{}{"space": sp.name(), "depth": pl.depth, "completed_depth": st.MaxDepth, "states": st.States, "transitions": st.Transitions})
					fmt.Fprintf(os.Stderr, "  %s depth %d: %d states, %d transitions\n", sp.name(), st.MaxDepth, st.States, st.Transitions)
				}
			}
		}
		bounds["two_kinds_two_clients"] = t2
	}

	r.Set("bounds", bounds)
	r.Set("per_config", perConfig)
	r.Set("differential", map[string]int{"step_comparisons": diffCompared, "agree": diffAgree, "differ_where_model_oracle_reports": diffExplained})
	r.Set("process_umask", defaultUmask)
	r.Set("link_refusals", kslab.LinkRefusals)
	r.Set("alphabet", []string{"gen", "cur", "all", "list", "listrot", "dcur", "drot(i) for every listed i and i in {-1,0,1,max+1}", "reset", "reopen"})
	r.Rule("state = canonical key store state read below the API: per (kind, client) the generated count, the surviving key ordinals newest-first in storage order and the current marker (pairs: also the public parts), for cached v1 handles plus decoded cache entries, clean flag and surviving ordinals offered so far; states are identified with their shortest history, successors are computed by replaying that history on a fresh real key store and applying one more operation of the alphabet; de-duplication on the canonical string per configuration; distinct_nontrivial counts distinct (configuration, canonical state) pairs plus distinct (format, outcome class) pairs")
	r.Rule("storage capabilities (v1): every configuration listed under bounds.single_kind_link_refusing_storage_and_umask is explored like a standard configuration (same alphabet, same BFS with de-duplication, same oracle, every kind) to the depth given there; a link-refusing storage is the configuration's own storage (kslab.MemFS or the real filesystem.FileStorage in a real directory) whose Link fails on every call with *os.LinkError EPERM / EOPNOTSUPP / EXDEV or an error without errno, so every rotated key is put into its history file by Storage.Copy; configurations named -umaskNNN run with that process umask; the cache-less link-refusing configurations (memory and real directory) also take part in the differential pass")
	r.Assume("Themis is replaced by the pure-Go stand-in /verif/shim/gothemis",
		"v1 in-memory Storage kslab.MemFS conforms to filesystem.FileStorage (differential self-test: bin/check C06 -selftest; every single-kind history is also run on a real directory)",
		"the rotated-key listing enumerates keys oldest first in both formats (creation times shown are checked to be non-decreasing); row i denotes the (i-1)-th oldest rotated survivor",
		"key store handles are driven sequentially (concurrency is C17), storage calls do not fail (C08) - except Link on the link-refusing storages, which fails always (a storage capability, not a fault)",
		"the process umask is "+defaultUmask+" (set by the check, not inherited) except in the configurations named -umaskNNN; file modes are not observed, only what the key store offers and what is stored",
		"Acra's Redis storage (the shipped storage that refuses Link) is not run: no Redis server in the sandbox; it is represented by the in-memory storage with Link refused by an error without errno",
		"directory-backed variants run on tmpfs (/dev/shm) when VERIF_SCRATCH is not set")
	stopProfile()
	r.Finish()
}
