package sess

import (
	"context"
	"fmt"
	"runtime/debug"
	"sync"
	"time"

	"github.com/jackc/pgx/v5/pgproto3"
	"github.com/sirupsen/logrus"

	acracensor "github.com/cossacklabs/acra/acra-censor"
	"github.com/cossacklabs/acra/crypto"
	"github.com/cossacklabs/acra/decryptor/base"
	"github.com/cossacklabs/acra/decryptor/postgresql"
	"github.com/cossacklabs/acra/encryptor/base/config"
	"github.com/cossacklabs/acra/keystore/filesystem"
	"github.com/cossacklabs/acra/poison"
	"github.com/cossacklabs/acra/pseudonymization"
	"github.com/cossacklabs/acra/pseudonymization/common"
	"github.com/cossacklabs/acra/pseudonymization/storage"
	"github.com/cossacklabs/acra/sqlparser"
	pgdialect "github.com/cossacklabs/acra/sqlparser/dialect/postgresql"

	"net"
)

// clientSession is the harness' implementation of base.ClientSession (the real one in
// cmd/acra-server/common dials the database over the network).
type clientSession struct {
	ctx  context.Context
	c, d net.Conn
	ps   interface{}
	mu   sync.Mutex
	data map[string]interface{}
}

func (s *clientSession) Context() context.Context       { return s.ctx }
func (s *clientSession) ClientConnection() net.Conn     { return s.c }
func (s *clientSession) DatabaseConnection() net.Conn   { return s.d }
func (s *clientSession) ProtocolState() interface{}     { return s.ps }
func (s *clientSession) SetProtocolState(x interface{}) { s.ps = x }
func (s *clientSession) GetData(k string) (interface{}, bool) {
	s.mu.Lock()
	defer s.mu.Unlock()
	v, ok := s.data[k]
	return v, ok
}
func (s *clientSession) SetData(k string, v interface{}) {
	s.mu.Lock()
	defer s.mu.Unlock()
	s.data[k] = v
}
func (s *clientSession) DeleteData(k string) {
	s.mu.Lock()
	defer s.mu.Unlock()
	delete(s.data, k)
}
func (s *clientSession) HasData(k string) bool {
	s.mu.Lock()
	defer s.mu.Unlock()
	_, ok := s.data[k]
	return ok
}

// DataKeys lists the session-data keys currently set (observable proxy state).
func (s *clientSession) DataKeys() []string {
	s.mu.Lock()
	defer s.mu.Unlock()
	var out []string
	for k := range s.data {
		out = append(out, k)
	}
	return out
}

// PGEnv is the per-process part: key store, schema, censor, tokenizer, proxy factory.
type PGEnv struct {
	KS        *filesystem.KeyStore
	Schema    config.TableSchemaStore
	Censor    *acracensor.AcraCensor
	Tokenizer common.Pseudoanonymizer
	Factory   base.ProxyFactory
	Poison    *CountingCallback
}

// CountingCallback counts poison callbacks.
type CountingCallback struct {
	mu sync.Mutex
	N  int
}

func (c *CountingCallback) Call() error { c.mu.Lock(); c.N++; c.mu.Unlock(); return nil }
func (c *CountingCallback) Count() int  { c.mu.Lock(); defer c.mu.Unlock(); return c.N }

// PGEnvOptions configures NewPGEnv.
type PGEnvOptions struct {
	EncryptorConfigYAML string
	CensorConfigYAML    string // "" = no handlers
	PoisonCallbacks     bool
}

// NewPGEnv builds the real PostgreSQL proxy factory the way cmd/acra-server does. The crypto
// registry and the default SQL dialect are process-wide: one env per process at a time.
func NewPGEnv(ks *filesystem.KeyStore, o PGEnvOptions) (*PGEnv, error) {
	e := &PGEnv{KS: ks}
	if err := crypto.InitRegistry(ks); err != nil {
		return nil, err
	}
	sqlparser.SetDefaultDialect(pgdialect.NewPostgreSQLDialect())
	schema, err := config.MapTableSchemaStoreFromConfig([]byte(o.EncryptorConfigYAML), false)
	if err != nil {
		return nil, fmt.Errorf("encryptor config: %w", err)
	}
	e.Schema = schema
	e.Censor = acracensor.NewAcraCensor()
	if o.CensorConfigYAML != "" {
		if err := e.Censor.LoadConfiguration([]byte(o.CensorConfigYAML)); err != nil {
			return nil, fmt.Errorf("censor config: %w", err)
		}
	}
	ts, err := storage.NewMemoryTokenStorage()
	if err != nil {
		return nil, err
	}
	te, err := storage.NewSCellEncryptor(ks)
	if err != nil {
		return nil, err
	}
	e.Tokenizer, err = pseudonymization.NewPseudoanonymizer(storage.WrapStorageWithEncryption(ts, te))
	if err != nil {
		return nil, err
	}
	cbs := poison.NewCallbackStorage()
	if o.PoisonCallbacks {
		e.Poison = &CountingCallback{}
		cbs.AddCallback(e.Poison)
	}
	parser := sqlparser.New(sqlparser.ModeDefault)
	setting := base.NewProxySetting(parser, schema, ks, nil, e.Censor, cbs)
	e.Factory, err = postgresql.NewProxyFactory(setting, ks, e.Tokenizer)
	return e, err
}

// PGSession is one client connection through the real proxy.
type PGSession struct {
	Env       *PGEnv
	ClientID  []byte
	Front     *pgproto3.Frontend // client end (independent codec)
	Back      *pgproto3.Backend  // database end
	ClientEnd *Conn              // raw access, client side
	DBEnd     *Conn              // raw access, database side
	sess      *clientSession
	errs      chan base.ProxyError
	closed    chan struct{}
	once      sync.Once
	Timeout   time.Duration
	notice    int
	panicState
}

// NewPGSession starts both proxy pumps (as cmd/acra-server/common/listener.go does) for clientID.
func NewPGSession(env *PGEnv, clientID []byte, logger *logrus.Logger) (*PGSession, error) {
	h := newHub()
	cliApp, cliProxy := pipeOn(h, "client", "proxy-client")
	dbProxy, dbSrv := pipeOn(h, "proxy-db", "database")
	// the proxy is quiescent when both of its pumps sleep on empty input buffers
	quiet := func() bool { return cliProxy.in.idle() && dbProxy.in.idle() }
	cliApp.in.quiet = quiet
	dbSrv.in.quiet = quiet
	s := &clientSession{c: cliProxy, d: dbProxy, data: map[string]interface{}{}}
	if logger == nil {
		logger = logrus.StandardLogger()
	}
	ctx := context.Background()
	ctx = loggingCtx(ctx, logger)
	ctx = base.SetClientSessionToContext(ctx, s)
	ac := base.NewAccessContext(base.WithClientID(clientID))
	ctx = base.SetAccessContextToContext(ctx, ac)
	s.ctx = ctx
	proxy, err := env.Factory.New(clientID, s)
	if err != nil {
		return nil, err
	}
	proxy.AddClientIDObserver(ac)
	ps := &PGSession{Env: env, ClientID: clientID, ClientEnd: cliApp, DBEnd: dbSrv, sess: s,
		errs: make(chan base.ProxyError), closed: make(chan struct{}), Timeout: 60 * time.Second}
	ps.Front = pgproto3.NewFrontend(cliApp, cliApp)
	ps.Back = pgproto3.NewBackend(dbSrv, dbSrv)
	guard := func(f func()) {
		defer func() {
			if r := recover(); r != nil {
				// listener.go recovers a panic and closes the session; record it
				ps.panicMu.Lock()
				ps.Panics = append(ps.Panics, fmt.Sprint(r))
				ps.PanicStacks = append(ps.PanicStacks, string(debug.Stack()))
				ps.panicMu.Unlock()
				ps.shutdown()
			}
		}()
		f()
	}
	go guard(func() { proxy.ProxyClientConnection(ctx, ps.errs) })
	go guard(func() { proxy.ProxyDatabaseConnection(ctx, ps.errs) })
	go func() { // listener: first proxy error closes both connections
		select {
		case e := <-ps.errs:
			ps.panicMu.Lock()
			ps.ProxyErrors = append(ps.ProxyErrors, fmt.Sprintf("%s: %v", e.InterruptSide(), e.Unwrap()))
			ps.panicMu.Unlock()
			ps.shutdown()
			select {
			case <-ps.errs:
			case <-time.After(5 * time.Second):
			}
		case <-ps.closed:
			// drain pump errors after an explicit Close
			for i := 0; i < 2; i++ {
				select {
				case <-ps.errs:
				case <-time.After(5 * time.Second):
				}
			}
		}
	}()
	return ps, nil
}

func (ps *PGSession) shutdown() {
	ps.once.Do(func() {
		close(ps.closed)
		ps.sess.c.Close()
		ps.sess.d.Close()
		ps.ClientEnd.Close()
		ps.DBEnd.Close()
	})
}

// Close ends the session.
func (ps *PGSession) Close() { ps.shutdown() }

// SessionDataKeys exposes the proxy's per-session data keys (placeholder settings etc.).
func (ps *PGSession) SessionDataKeys() []string { return ps.sess.DataKeys() }
