package mycheck

import (
	"fmt"

	"github.com/cossacklabs/acra/acrablock"
	"github.com/cossacklabs/acra/acrastruct"
	"github.com/cossacklabs/acra/keystore/filesystem"
)

// Envelope encrypts plain for owner the way an application (or AcraTranslator) would: an
// AcraStruct for env "acrastruct", an AcraBlock otherwise. Used to put stored values of a chosen
// class into the scripted database without going through the proxy.
func Envelope(ks *filesystem.KeyStore, env string, owner, plain []byte) ([]byte, error) {
	if env == "acrastruct" {
		pub, err := ks.GetClientIDEncryptionPublicKey(owner)
		if err != nil {
			return nil, fmt.Errorf("public key of %s: %w", owner, err)
		}
		return acrastruct.CreateAcrastruct(plain, pub, nil)
	}
	key, err := ks.GetClientIDSymmetricKey(owner)
	if err != nil {
		return nil, fmt.Errorf("symmetric key of %s: %w", owner, err)
	}
	return acrablock.CreateAcraBlock(plain, key, nil)
}

// Damage returns a copy of an envelope with one bit flipped in its tail (inside the encrypted
// payload / authentication tag): the shape stays that of an envelope, opening it fails.
func Damage(e []byte) []byte {
	out := append([]byte{}, e...)
	if len(out) >= 8 {
		out[len(out)-7] ^= 0x10
	}
	return out
}
