package main

import (
	"fmt"
	"regexp"
	"sort"
	"strings"
	"syscall"

	"github.com/cossacklabs/acra/sqlparser"
	"github.com/cossacklabs/acra/sqlparser/dependency/querypb"

	"verif/ev"
	"verif/sqlgen"
)

var rePGInterval = regexp.MustCompile(`interval :replaced[0-9]+`)

// shape comparison of the redacted statement with the original: literals wild-carded.
var wild = sqlgen.Options{WildLiterals: true, OrderByConstant: true, QuotedLowerIdent: true, PlaceholderNames: true}

func runWorker(r *ev.Run, col *sqlgen.Collector) {
	d := sqlgen.Current
	env := newEnv()
	cases := enumerate(r.Thorough())
	col.Info("statements_generated", len(cases))

	// which spellings leak in the simplest statement: then the literal KIND is the cause and
	// every leak of that spelling gets one finding key whatever its position
	for _, s := range sqlgen.Spellings() {
		if !s.Applies() {
			continue
		}
		sql := "select a from t where a = " + s.Render(0)
		if red, err := sqlparser.RedactSQLQuery(sql); err == nil && sqlgen.ContainsMarker(red) != "" {
			env.typeLeak[s.Name] = true
		}
	}
	env.cap.take()

	mine, accepted := 0, 0
	for i, c := range cases {
		if i%*shards != *shard {
			continue
		}
		if mine%64 == 0 && r.Expired() {
			col.Capped(fmt.Sprintf("wall budget: stopped at statement %d of %d of shard %d/%d", i, len(cases), *shard, *shards))
			break
		}
		mine++
		if mine%1500 == 0 {
			env.recycle(col, true)
		}
		out := evalCase(col, env, c, false)
		col.Class(c.Kind+":"+out, 1)
		if out != "rejected" {
			accepted++
		}
		if mine == 40 {
			col.Sample(c)
		}
	}
	col.States(accepted)
	if *shard == 0 {
		overflowPart(col, env)
	}
	env.close(col)
	col.Info("statements_of_shard", mine)
	col.Info("cpu_s", cpuSeconds())
	_ = d
}

func cpuSeconds() float64 {
	var ru syscall.Rusage
	syscall.Getrusage(syscall.RUSAGE_SELF, &ru)
	return float64(int((float64(ru.Utime.Sec+ru.Stime.Sec)+float64(ru.Utime.Usec+ru.Stime.Usec)/1e6)*10)) / 10
}

// callRedact runs one redaction entry point with panics caught.
func callRedact(name string, env *env, sql string) (red string, err error, panicked string) {
	defer func() {
		if p := recover(); p != nil {
			panicked = fmt.Sprint(p)
		}
	}()
	switch name {
	case "RedactSQLQuery":
		red, err = sqlparser.RedactSQLQuery(sql)
	case "HandleRawSQLQuery-strict":
		_, red, _, err = env.strict.HandleRawSQLQuery(sql)
	case "HandleRawSQLQuery-default":
		_, red, _, err = env.deflt.HandleRawSQLQuery(sql)
	}
	return
}

var entryPoints = []string{"RedactSQLQuery", "HandleRawSQLQuery-strict", "HandleRawSQLQuery-default"}

// leakCause names the cause of a leak for the finding key: the literal kind when that kind
// leaks even in the simplest statement, else the AST location of the literals that survive
// Normalize, else the position name.
func leakCauses(env *env, c caseT, t sqlparser.Statement) []string {
	var kinds []string
	for _, s := range c.Spellings {
		if env.typeLeak[s] {
			kinds = append(kinds, s)
		}
	}
	if len(kinds) > 0 {
		return []string{"literal-kind/" + kinds[0]}
	}
	if t != nil {
		// fresh tree; which nodes does sqlparser.Walk (hence Normalize) reach; normalise; for every
		// marker-bearing literal that is still a literal name the clause of the deepest
		// enclosing statement node Walk did reach: that clause is the one not descended into
		if t2, err, pp := sqlgen.Parse(stripSemicolon(c.SQL)); err == nil && pp == "" {
			visited := map[interface{}]bool{}
			_ = sqlparser.Walk(func(n sqlparser.SQLNode) (bool, error) {
				switch n.(type) {
				case *sqlparser.Select, *sqlparser.Union, *sqlparser.Insert, *sqlparser.Update, *sqlparser.Delete, *sqlparser.Set:
					visited[n] = true
				}
				return true, nil
			}, t2)
			slots := sqlgen.Literals(t2)
			sqlparser.Normalize(t2, map[string]*querypb.BindVariable{}, sqlparser.ValueMask)
			seen := map[string]bool{}
			var paths []string
			for _, sl := range slots {
				v, ok := sl.Get().(*sqlparser.SQLVal)
				if !ok || v.Type == sqlparser.ValArg || sqlgen.ContainsMarker(string(v.Val)) == "" {
					continue
				}
				cl := sl.Clause
				for _, ce := range sl.Chain {
					if visited[ce.Stmt] {
						cl = ce.Clause
					}
				}
				if !seen[cl] {
					seen[cl] = true
					paths = append(paths, cl)
				}
			}
			if len(paths) > 0 {
				sort.Strings(paths)
				for i := range paths {
					paths[i] = "clause-not-walked/" + paths[i]
				}
				return paths
			}
		}
	}
	p := c.Position
	if i := strings.Index(p, "#"); i >= 0 {
		p = p[:i]
	}
	return []string{"position/" + p}
}

func leakCause(env *env, c caseT, t sqlparser.Statement) string {
	return leakCauses(env, c, t)[0]
}

func stripSemicolon(s string) string { return strings.TrimSuffix(s, ";") }

// evalCase pushes one statement through everything and applies the oracle.
func evalCase(col *sqlgen.Collector, env *env, c caseT, verbose bool) string {
	d := c.Dialect
	t, perr, pp := sqlgen.Parse(c.SQL)
	parsable := perr == nil && pp == ""
	if c.Kind != "unparsable" && !parsable {
		return "rejected" // not a statement of this dialect: outside the space
	}
	if c.Kind == "unparsable" && parsable {
		if _, ok := t.(*sqlparser.DDL); !ok { // a partially parsed DDL is "parsed" only in name
			return "rejected"
		}
	}
	col.Traces(1)
	env.cap.take() // drop whatever the harness's own parse above logged
	outcome := "ok"
	fail := func(key, msg string) {
		col.Violation(key, msg, c)
		outcome = "violation"
	}
	spell := strings.Join(c.Spellings, "+")
	redactLeak := false // a redaction entry point already left a literal in: log lines quoting the redacted text are the same defect

	// 1. redaction entry points
	for _, ep := range entryPoints {
		col.Transitions(1)
		col.Eval(1)
		red, err, pp := callRedact(ep, env, c.SQL)
		entries, formatted := env.cap.take()
		if verbose {
			fmt.Printf("  %-26s -> %q err=%v, %d log entries\n", ep, red, err, len(entries))
			for _, e := range entries {
				fmt.Printf("      %s\n", e)
			}
		}
		for _, e := range append(entries, formatted) {
			if sqlgen.ContainsMarker(e) != "" {
				what := "statement"
				if c.Kind == "unparsable" {
					what = "unparsable statement"
				}
				if redactLeak && c.Kind != "unparsable" {
					break
				}
				fail("C16/log/"+logSig(e)+"/"+strings.ReplaceAll(what, " ", "-"), fmt.Sprintf("[%s] %s writes a log entry carrying a literal of the %s %q: %s", d, ep, what, c.SQL, trunc(e, 300)))
				break
			}
		}
		if pp != "" {
			fail("C16/redact/"+ep+"/panic", fmt.Sprintf("[%s] %s panicked on %q: %s", d, ep, c.SQL, pp))
			continue
		}
		if c.Kind == "unparsable" {
			if core := sqlgen.ContainsMarker(red); core != "" {
				fail("C16/redact/"+ep+"/unparsable-statement-returned-as-redacted",
					fmt.Sprintf("[%s] %s returned the unparsable statement %q as its 'redacted' form %q (the proxies log this string)", d, ep, c.SQL, trunc(red, 200)))
			}
			continue
		}
		if err != nil {
			fail("C16/redact/"+ep+"/error-on-parsable", fmt.Sprintf("[%s] %s fails on a statement the parser accepts: %q: %v", d, ep, c.SQL, err))
			continue
		}
		if core := sqlgen.ContainsMarker(red); core != "" {
			redactLeak = true
			for _, cause := range leakCauses(env, c, t) {
				fail("C16/literal-in-redacted/"+cause,
					fmt.Sprintf("[%s] %s leaves a literal in the redacted statement: %q -> %q (position %s, spelling %s)", d, ep, c.SQL, trunc(red, 300), c.Position, spell))
			}
		}
		if redactLeak {
			continue // already reported; the shape of a partially redacted text adds nothing
		}
		// shape: the redacted text re-parses to the original's tree with literals wild-carded
		col.Transitions(1)
		rt, rerr, rpp := sqlgen.Parse(red)
		if rerr != nil && sqlgen.IsPG() && rePGInterval.MatchString(red) {
			// Acra's PostgreSQL grammar only knows `interval '<string>'`, so the placeholder the
			// normalizer (correctly) puts there cannot be parsed back by this parser. Put a
			// string back at exactly these places and compare the shape of that.
			col.Class("pg-interval-placeholder-reparse", 1)
			rt, rerr, rpp = sqlgen.Parse(rePGInterval.ReplaceAllString(red, "interval 'x'"))
		}
		switch {
		case rpp != "":
			fail("C16/redact/redacted-reparse-panic", fmt.Sprintf("[%s] parser panicked on redacted %q: %s", d, red, rpp))
		case rerr != nil:
			fail("C16/redact/redacted-does-not-parse/"+leakCause(env, c, t), fmt.Sprintf("[%s] redacted form of %q does not parse: %q: %v", d, c.SQL, trunc(red, 300), rerr))
		default:
			orig := t
			if ep != "RedactSQLQuery" {
				// HandleRawSQLQuery strips margin comments and a trailing semicolon first
				stripped, _ := sqlparser.SplitMarginComments(c.SQL)
				if o2, e2, p2 := sqlgen.Parse(stripSemicolon(stripped)); e2 == nil && p2 == "" {
					orig = o2
				}
			}
			if dd := sqlgen.Diff(orig, rt, wild); dd != "" {
				fail("C16/redact/shape-changed/"+shapeSig(dd), fmt.Sprintf("[%s] %s changes the statement's shape: %q -> %q: %s", d, ep, c.SQL, trunc(red, 300), dd))
			}
		}
	}

	// 2. the firewall under every configuration and log level
	for _, lvl := range levels {
		setLevel(lvl)
		for _, lc := range env.censors {
			col.Transitions(1)
			col.Eval(1)
			verdict, pp := handle(lc, c.SQL)
			entries, formatted := env.cap.take()
			if verbose {
				fmt.Printf("  censor %-40s %-5s -> %v, %d log entries\n", lc.cfg.Name, lvl, verdict, len(entries))
				for _, e := range entries {
					fmt.Printf("      %s\n", e)
				}
			}
			if pp != "" {
				fail("C16/censor/"+lc.cfg.Name+"/panic", fmt.Sprintf("[%s] AcraCensor.HandleQuery panicked under %s on %q: %s", d, lc.cfg.Name, c.SQL, pp))
			}
			leaked := ""
			for _, e := range entries {
				if sqlgen.ContainsMarker(e) != "" {
					leaked = e
					break
				}
			}
			if leaked == "" && sqlgen.ContainsMarker(formatted) != "" {
				leaked = formatted
			}
			if leaked != "" {
				cause := "unparsable-statement"
				if c.Kind != "unparsable" {
					cause = "statement"
				}
				key := "C16/log/" + logSig(leaked) + "/" + cause
				if redactLeak && c.Kind != "unparsable" {
					key = "C16/literal-in-redacted/" + leakCause(env, c, t) // same defect, seen in the log
				}
				fail(key, fmt.Sprintf("[%s] censor configuration %s, log level %s: log entry carries a literal of %q: %s", d, lc.cfg.Name, lvl, c.SQL, trunc(leaked, 300)))
			}
		}
	}
	setLevel(levels[0])
	col.Distinct(d + "|" + c.Kind + "|" + c.Family + "|" + spell + "|" + outcome)
	return outcome
}

func handle(lc *liveCensor, sql string) (verdict error, panicked string) {
	defer func() {
		if p := recover(); p != nil {
			panicked = fmt.Sprint(p)
		}
	}()
	return lc.censor.HandleQuery(sql), ""
}

// logSig identifies the log statement that leaked: level and the message up to the first
// quote or marker.
func logSig(entry string) string {
	parts := strings.SplitN(entry, "|", 3)
	msg := entry
	if len(parts) >= 2 {
		msg = parts[0] + ":" + parts[1]
	}
	l := strings.ToLower(msg)
	cut := len(msg)
	for _, c := range sqlgen.Cores {
		if i := strings.Index(l, c); i >= 0 && i < cut {
			cut = i
		}
	}
	if i := strings.IndexAny(msg, "'\""); i >= 0 && i < cut {
		cut = i
	}
	msg = strings.TrimSpace(msg[:cut])
	if len(msg) > 50 {
		msg = msg[:50]
	}
	return strings.ReplaceAll(msg, " ", "_")
}

func shapeSig(diff string) string {
	i := strings.Index(diff, ": ")
	if i < 0 {
		return "?"
	}
	path := diff[:i]
	// drop indices
	var sb strings.Builder
	skip := false
	for _, r := range path {
		switch {
		case r == '[':
			skip = true
			sb.WriteString("[]")
		case r == ']':
			skip = false
		case !skip:
			sb.WriteRune(r)
		}
	}
	parts := strings.Split(sb.String(), ".")
	if len(parts) > 3 {
		parts = parts[len(parts)-3:]
	}
	detail := diff[i+2:]
	if j := strings.Index(detail, "\""); j >= 0 {
		detail = detail[:j]
	}
	return strings.Join(parts, ".") + ":" + strings.ReplaceAll(strings.TrimSpace(detail), " ", "_")
}
