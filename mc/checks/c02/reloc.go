package main

// Key relocation (a stored key file / key ring of one owner copied over that of another owner
// must not load under the other identity) and key distinctness.

import (
	"bytes"
	"context"
	"fmt"
	"os"
	"path/filepath"
	"sort"
	"strings"

	"github.com/cossacklabs/acra/keystore"
	v2api "github.com/cossacklabs/acra/keystore/v2/keystore/filesystem/backend/api"

	"verif/ev"
	"verif/fx"
)

type keyFile struct {
	path    string // relative to the key directory / backend root
	owner   int
	purpose string // "storage-private", "storage-public", "storage-sym", "hmac"
	current bool
	plain   []byte // the key this file holds (decrypted with the right context)
}

// loaders of a (owner, purpose): every key store getter that consults such a file.
type loaded struct {
	name string
	keys [][]byte
	err  error
}

func loadFor(ks keystore.ServerKeyStore, owner int, purpose string) []loaded {
	id := ids[owner]
	var out []loaded
	add := func(name string, keys [][]byte, err error) { out = append(out, loaded{name, keys, err}) }
	switch purpose {
	case "storage-private":
		k, err := ks.GetServerDecryptionPrivateKey(id)
		if err == nil {
			add("GetServerDecryptionPrivateKey", [][]byte{k.Value}, nil)
		} else {
			add("GetServerDecryptionPrivateKey", nil, err)
		}
		ksAll, err := ks.GetServerDecryptionPrivateKeys(id)
		var all [][]byte
		for _, k := range ksAll {
			all = append(all, k.Value)
		}
		add("GetServerDecryptionPrivateKeys", all, err)
	case "storage-public":
		k, err := ks.GetClientIDEncryptionPublicKey(id)
		if err == nil {
			add("GetClientIDEncryptionPublicKey", [][]byte{k.Value}, nil)
		} else {
			add("GetClientIDEncryptionPublicKey", nil, err)
		}
	case "storage-sym":
		k, err := ks.GetClientIDSymmetricKey(id)
		add("GetClientIDSymmetricKey", [][]byte{k}, err)
		all, err := ks.GetClientIDSymmetricKeys(id)
		add("GetClientIDSymmetricKeys", all, err)
	case "hmac":
		k, err := ks.GetHMACSecretKey(id)
		add("GetHMACSecretKey", [][]byte{k}, err)
	case "storage-keypair": // v2 ring holding both halves
		out = append(out, loadFor(ks, owner, "storage-private")...)
		out = append(out, loadFor(ks, owner, "storage-public")...)
	}
	return out
}

type relocator struct {
	r          *ev.Run
	strictPub  bool
	w          *world
	files      []keyFile
	put        func(path string, data []byte)
	get        func(path string) []byte
	openFresh  func() keystore.ServerKeyStore
	formatName string
}

func v1Files(w *world) []keyFile {
	kdir := filepath.Join(w.dir, "keys")
	names := map[string]struct {
		owner   int
		purpose string
		kp      keystore.KeyPurpose
	}{}
	for c, id := range ids {
		s := string(id)
		names[s+"_storage"] = struct {
			owner   int
			purpose string
			kp      keystore.KeyPurpose
		}{c, "storage-private", keystore.PurposeStorageClientPrivateKey}
		names[s+"_storage.pub"] = struct {
			owner   int
			purpose string
			kp      keystore.KeyPurpose
		}{c, "storage-public", ""}
		names[s+"_storage_sym"] = struct {
			owner   int
			purpose string
			kp      keystore.KeyPurpose
		}{c, "storage-sym", keystore.PurposeStorageClientSymmetricKey}
		names[s+"_hmac"] = struct {
			owner   int
			purpose string
			kp      keystore.KeyPurpose
		}{c, "hmac", keystore.PurposeSearchHMAC}
	}
	enc, err := keystore.NewSCellKeyEncryptor(append([]byte(nil), fx.MasterKey...))
	must(err, "encryptor")
	var out []keyFile
	filepath.Walk(kdir, func(p string, info os.FileInfo, err error) error {
		if err != nil || info.IsDir() {
			return nil
		}
		rel, _ := filepath.Rel(kdir, p)
		base, current := rel, true
		if d := filepath.Dir(rel); strings.HasSuffix(d, ".old") {
			base, current = strings.TrimSuffix(d, ".old"), false
		}
		n, ok := names[base]
		if !ok {
			w.capNote("key relocation: v1 key directory holds a file that belongs to no fixture client: " + normPath(rel))
			return nil
		}
		data, err := os.ReadFile(p)
		must(err, "read key file")
		kf := keyFile{path: rel, owner: n.owner, purpose: n.purpose, current: current, plain: data}
		if n.purpose != "storage-public" {
			kf.plain, err = enc.Decrypt(context.Background(), data, keystore.NewClientIDKeyContext(n.kp, ids[n.owner]))
			if err != nil {
				w.capNote("key relocation: v1 key file " + normPath(rel) + " does not decrypt with the context of the client it is named after")
				return nil
			}
		}
		out = append(out, kf)
		return nil
	})
	sort.Slice(out, func(i, j int) bool { return out[i].path < out[j].path })
	return out
}

func newV1Relocator(r *ev.Run, w *world, strictPub bool) *relocator {
	kdir := filepath.Join(w.dir, "keys")
	rl := &relocator{r: r, w: w, strictPub: strictPub, formatName: w.format}
	rl.files = v1Files(w)
	rl.get = func(p string) []byte { b, err := os.ReadFile(filepath.Join(kdir, p)); must(err, "read"); return b }
	rl.put = func(p string, data []byte) {
		full := filepath.Join(kdir, p)
		fi, err := os.Stat(full)
		must(err, "stat")
		must(os.WriteFile(full, data, fi.Mode().Perm()), "write key file")
	}
	rl.openFresh = func() keystore.ServerKeyStore { return fx.NewKeyStoreV1(kdir, keystore.WithoutCache) }
	return rl
}

func newV2Relocator(r *ev.Run, w *world, b v2api.Backend) *relocator {
	rl := &relocator{r: r, w: w, formatName: w.format}
	paths, err := b.ListAll()
	must(err, "list key rings")
	for _, p := range paths {
		p = filepath.ToSlash(p)
		if !strings.HasSuffix(p, ".keyring") {
			continue
		}
		parts := strings.Split(strings.TrimSuffix(p, ".keyring"), "/")
		if len(parts) != 3 || parts[0] != "client" {
			ev.Fatalf("v2 key store holds a ring this check cannot attribute: %s", p)
		}
		owner := -1
		for c, id := range ids {
			if parts[1] == string(id) {
				owner = c
			}
		}
		purpose := map[string]string{"storage": "storage-keypair", "storage-sym": "storage-sym", "hmac-sym": "hmac"}[parts[2]]
		if owner < 0 || purpose == "" {
			ev.Fatalf("v2 key store holds a ring this check cannot attribute: %s", p)
		}
		kf := keyFile{path: p, owner: owner, purpose: purpose, current: true}
		rl.files = append(rl.files, kf)
	}
	rl.get = func(p string) []byte { d, err := b.Get(p); must(err, "backend get"); return append([]byte(nil), d...) }
	rl.put = func(p string, data []byte) {
		tmp := p + ".c02tmp"
		must(b.Put(tmp, append([]byte(nil), data...)), "backend put")
		must(b.Rename(tmp, p), "backend rename")
	}
	rl.openFresh = func() keystore.ServerKeyStore { return w.ks } // v2 has no cache: every load reads the backend
	return rl
}

// secrets of a file/ring: the keys its owner obtains through the getters on the pristine store.
func (rl *relocator) secretsOf(f keyFile) [][]byte {
	if f.plain != nil {
		return [][]byte{f.plain}
	}
	var out [][]byte
	for _, l := range loadFor(rl.w.ks, f.owner, f.purpose) {
		if l.err != nil {
			rl.r.Capped(fmt.Sprintf("key relocation: pristine %s key store: %s(%s) fails", rl.formatName, l.name, ids[f.owner]))
			continue
		}
		out = append(out, l.keys...)
	}
	return out
}

func (rl *relocator) caseOf(f, g keyFile) caseT {
	return caseT{Scenario: "relocate", Format: rl.formatName, R: rl.w.r, A: f.owner, B: g.owner,
		AName: string(ids[f.owner]), BName: string(ids[g.owner]), From: f.path, To: g.path, IDSet: idSet}
}

func normPath(p string) string {
	// historical v1 files are named by a timestamp: keep the finding key run-independent
	if i := strings.Index(p, ".old/"); i >= 0 {
		return p[:i] + ".old/<rotated>"
	}
	return p
}

// run copies every file f over every other file g and loads g's (owner, purpose).
// Oracle (property statement): when owners differ the load fails, or at least never hands out a
// key held by f. Same-owner relocations (other purpose / other generation) are recorded only:
// the statement binds keys to clients, not to purposes (keystore v1 uses the client id alone as
// key-encryption context, so alpha_1_hmac and alpha_1_storage_sym are interchangeable; v2
// binds the ring path as well).
func (rl *relocator) run(only *caseT) {
	r := rl.r
	secrets := map[string][][]byte{}
	for _, f := range rl.files {
		secrets[f.path] = rl.secretsOf(f)
	}
	r.Set("relocation_files_"+rl.formatName, len(rl.files))
	for _, g := range rl.files {
		orig := rl.get(g.path)
		for _, f := range rl.files {
			if f.path == g.path {
				continue
			}
			c := rl.caseOf(f, g)
			if only != nil && (normPath(only.From) != normPath(f.path) || normPath(only.To) != normPath(g.path)) {
				continue
			}
			r.States(1)
			rl.put(g.path, rl.get(f.path))
			ks := rl.openFresh()
			results := loadFor(ks, g.owner, g.purpose)
			rl.put(g.path, orig)
			relation := "cross-client"
			switch {
			case f.owner == g.owner && f.purpose == g.purpose:
				relation = "same-client-same-purpose"
			case f.owner == g.owner:
				relation = "same-client-other-purpose"
			}
			for _, l := range results {
				r.Eval(1)
				r.Transitions(1)
				r.Traces(1)
				got := false
				for _, k := range l.keys {
					for _, s := range secrets[f.path] {
						if len(k) > 0 && bytes.Equal(k, s) {
							got = true
						}
					}
				}
				class := ""
				switch {
				case l.err != nil:
					class = "load-fails"
				case !got:
					class = "loads-without-any-key-of-the-relocated-file"
				case relation != "cross-client":
					class = "loads(same client)"
				case f.purpose == "storage-public" && g.purpose == "storage-public" && !rl.strictPub:
					// keystore v1 keeps public keys as plain, unauthenticated files by design; nothing
					// secret of A becomes readable. Recorded, reported to the lead, not a violation
					// (run with -strict-public to make it one).
					class = "PUBLIC-KEY-OF-OTHER-CLIENT-LOADS(v1 public key files are unbound)"
				default:
					class = "KEY-OF-OTHER-CLIENT-LOADS"
					kind := func(p string) string {
						if p == "storage-public" {
							return "public-key"
						}
						return "secret-key"
					}
					r.Violation(fmt.Sprintf("C02/relocate/%s/%s-over-%s/%s/loads-under-other-identity", rl.formatName, kind(f.purpose), kind(g.purpose), pairKind(f.owner, g.owner)),
						fmt.Sprintf("%s key store: %s (key of %s) copied over %s loads through %s(%s) and yields the key of %s",
							rl.formatName, normPath(f.path), ids[f.owner], normPath(g.path), l.name, ids[g.owner], ids[f.owner]), c)
				}
				cur := map[bool]string{true: "current", false: "rotated"}
				r.Distinct("relocate|" + rl.formatName + "|" + f.purpose + "(" + cur[f.current] + ")->" + g.purpose + "(" + cur[g.current] + ")|" + relation + "|" + l.name + "|" + class)
				r.Class("relocate:"+relation+":"+class, 1)
			}
		}
	}
}

// ---------------------------------------------------------------- key distinctness

type keyLabel struct {
	world, client, purpose string
	index                  int
}

type distinctness struct {
	r    *ev.Run
	seen map[string]keyLabel
	n    int
}

func (d *distinctness) add(w *world, c int, purpose string, idx int, key []byte) {
	if len(key) == 0 {
		ev.Fatalf("%s: empty %s key for %s", w.name, purpose, ids[c])
	}
	d.r.Eval(1)
	d.n++
	l := keyLabel{w.name, string(ids[c]), purpose, idx}
	if prev, dup := d.seen[string(key)]; dup {
		rel := "cross-client"
		if prev.client == l.client {
			rel = "same-client"
		}
		d.r.Violation(fmt.Sprintf("C02/key-distinctness/%s/%s-vs-%s/%s", w.format, prev.purpose, purpose, rel),
			fmt.Sprintf("generated keys collide: %+v and %+v hold the same key material", prev, l),
			caseT{Scenario: "distinct", Format: w.format, R: w.r, A: c, AName: string(ids[c]), Op: purpose})
		return
	}
	d.seen[string(key)] = l
}

func (d *distinctness) collect(w *world) {
	for c, id := range ids {
		bad := func(err error, what string) bool {
			if err != nil {
				d.r.Capped(fmt.Sprintf("key distinctness: %s of %s not readable on a %s key store (%v)", what, id, w.format, err))
				d.r.Class("distinctness:unreadable", 1)
				return true
			}
			return false
		}
		privs, err := w.ks.GetServerDecryptionPrivateKeys(id)
		if !bad(err, "private keys") {
			for i, k := range privs {
				d.add(w, c, "storage-private", i, append([]byte(nil), k.Value...))
			}
			if len(privs) != w.r[c]+1 {
				d.r.Capped(fmt.Sprintf("key distinctness: %s has %d private keys after %d rotations (%s)", id, len(privs), w.r[c], w.format))
			}
		}
		pub, err := w.ks.GetClientIDEncryptionPublicKey(id)
		if !bad(err, "public key") {
			d.add(w, c, "storage-public", 0, pub.Value)
		}
		syms, err := w.ks.GetClientIDSymmetricKeys(id)
		if !bad(err, "symmetric keys") {
			for i, k := range syms {
				d.add(w, c, "storage-sym", i, append([]byte(nil), k...))
			}
			if len(syms) != w.r[c]+1 {
				d.r.Capped(fmt.Sprintf("key distinctness: %s has %d symmetric keys after %d rotations (%s)", id, len(syms), w.r[c], w.format))
			}
		}
		h, err := w.ks.GetHMACSecretKey(id)
		if !bad(err, "hmac key") {
			d.add(w, c, "hmac", 0, append([]byte(nil), h...))
		}
	}
}
