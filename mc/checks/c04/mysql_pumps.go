package main

// Pump interleavings of the MySQL proxy (engine E1 on the proxy itself, see mc/sess/mysched.go):
// the two pumps of the real proxy, an application thread and a database thread run under the
// cooperative scheduler; every Read and Write on the in-memory connections is a scheduling point.
// Script of the application: connect, then two SELECTs of the protected column one after the
// other, each sent as soon as the answer to the previous one has arrived (an ordinary
// request/response client - nothing is pipelined). The database thread answers from a scripted
// store that holds one row whose protected column is the owner's envelope. Every interleaving
// with at most B preemptions (B = 0, 1 quick; 2 thorough) is executed.
// Oracle on every execution: both answers carry the original value (the owner reads what it wrote),
// no pump panics, no deadlock.

import (
	"bytes"
	"fmt"
	"strings"

	"github.com/cossacklabs/acra/keystore/filesystem"

	"verif/ev"
	"verif/fx"
	"verif/mycheck"
	"verif/sched"
	"verif/sess"
)

type pumpReplay struct {
	Part     string `json:"part"` // "mysql-pumps"
	Scenario string `json:"scenario"`
	Bound    int    `json:"preemption_bound"`
	Choices  []int  `json:"choices"`
	Failure  string `json:"failure"`
}

type pumpScenario struct {
	Name    string
	Queries []string // sent one after the other by the application
	// ErrorPolicy: column c is declared int32 with response_on_fail: error and holds a value that
	// cannot be revealed; the database streams its answer packet by packet. The first SELECT of c must
	// be answered with an error, the following statement on unprotected columns with its own rows.
	ErrorPolicy bool
}

func pumpScenarios() []pumpScenario {
	return []pumpScenario{
		{Name: "select-select", Queries: []string{"select id, c from t", "select c, id from t"}},
		{Name: "select-ping-select", Queries: []string{"select id, c from t", "\x0e", "select c, id from t"}}, // "\x0e" = COM_PING
		// prepared statement: "P:<sql>" = COM_STMT_PREPARE, "X" = COM_STMT_EXECUTE of it (binary protocol rows)
		{Name: "prepare-execute-execute", Queries: []string{"P:select id, c from t", "X", "X"}},
		// a write through the proxy, then the owner reads it back
		{Name: "insert-select", Queries: []string{"insert into t (id, plain, c) values (2, 'p2', '" + string(pumpPlain) + "')", "select id, c from t where id = 2"}},
		// failure policy "error" (skip of the remaining rows) followed at once by another statement
		{Name: "error-policy-then-select", Queries: []string{"select id, c from t", "select id, plain from t"}, ErrorPolicy: true},
	}
}

var pumpPlain = []byte("the original value of the protected column")

func (sc pumpScenario) build(env *sess.MyEnv, ks *filesystem.KeyStore, col mycheck.Col) sched.Scenario {
	return func(s *sched.Scheduler) func(x *sched.Execution) []string {
		envelope, err := mycheck.Envelope(ks, col.Envelope, fx.Alpha, pumpPlain)
		if err != nil {
			ev.Fatalf("pump phase: envelope: %v", err)
		}
		db := mycheck.NewDB(col.DBType, 0)
		db.Tables["t"].Rows = [][][]byte{{[]byte("1"), []byte("p1"), envelope}}
		if sc.ErrorPolicy {
			db.Tables["t"].Rows = [][][]byte{{[]byte("1"), []byte("p1"), []byte("not an envelope")}, {[]byte("2"), []byte("p2"), []byte("garbage too")}}
		}
		ms, err := sess.NewMySchedSession(env, fx.Alpha, s)
		if err != nil {
			ev.Fatalf("pump phase: session: %v", err)
		}
		ms.Quiet = true // the connection phase is not part of the explored space
		var answers [][]*sess.MyResultSet
		var appErr, dbErr string
		// the application: greeting, handshake response, OK, then the queries one by one
		s.Go("app", func() {
			defer ms.AppEnd.Close()
			if _, err := sess.ReadMyPacket(ms.AppEnd); err != nil {
				appErr = "greeting: " + err.Error()
				return
			}
			hr := &sess.MyHandshakeResponse41{Capabilities: sess.MyDefaultClientCaps &^ sess.MyCapDeprecateEOF, MaxPacket: 1 << 24, Charset: 0xff, User: "app",
				AuthResponse: []byte("0123456789abcdefghij"), Database: "appdb", AuthPlugin: "mysql_native_password"}
			if _, err := ms.AppEnd.Write(sess.MyJoin(sess.MySeq(1, hr.Encode()))); err != nil {
				appErr = "handshake response: " + err.Error()
				return
			}
			if _, err := sess.ReadMyPacket(ms.AppEnd); err != nil {
				appErr = "handshake OK: " + err.Error()
				return
			}
			ms.Quiet = false
			var stmtID uint32
			for _, q := range sc.Queries {
				payload := sess.MyQuery(q)
				kind := "query"
				switch {
				case q == "\x0e":
					payload, kind = []byte{0x0e}, "ping"
				case strings.HasPrefix(q, "P:"):
					payload, kind = sess.MyPrepare(q[2:]), "prepare"
				case q == "X":
					b, err := (&sess.MyExecute{StmtID: stmtID, Iterations: 1}).Encode()
					if err != nil {
						appErr = "execute: " + err.Error()
						return
					}
					payload, kind = b, "execute"
				}
				if _, err := ms.AppEnd.Write(sess.MyJoin(sess.MySeq(0, payload))); err != nil {
					appErr = "send: " + err.Error()
					return
				}
				var pkts []sess.MyPacket
				for {
					p, err := sess.ReadMyPacket(ms.AppEnd)
					if err != nil {
						appErr = fmt.Sprintf("answer to %q: %v after %d packets", q, err, len(pkts))
						return
					}
					pkts = append(pkts, p)
					if kind == "prepare" {
						if pr, err := sess.DecodeMyPrepareResponse(pkts, false); err == nil {
							if pr.OK == nil {
								appErr = "prepare was refused"
								return
							}
							stmtID = pr.OK.StmtID
							break
						}
					} else if sets, err := sess.DecodeMyResults(pkts, kind == "execute", false); err == nil {
						answers = append(answers, sets)
						break
					}
					if len(pkts) > 64 {
						appErr = fmt.Sprintf("answer to %q does not end", q)
						return
					}
				}
			}
		})
		// the database: greeting, OK, then one scripted answer per command until the proxy hangs up
		s.Go("db", func() {
			defer ms.DBEnd.Close()
			greeting := (&sess.MyHandshakeV10{ServerVersion: "8.0.33-verif", ConnectionID: 7, AuthData: []byte("12345678abcdefghijkl"),
				Capabilities: sess.MyDefaultServerCaps &^ sess.MyCapDeprecateEOF, Charset: 0xff, Status: sess.MyStatusAutocommit, AuthPlugin: "mysql_native_password"}).Encode()
			if _, err := ms.DBEnd.Write(sess.MyJoin(sess.MySeq(0, greeting))); err != nil {
				dbErr = "greeting: " + err.Error()
				return
			}
			if _, err := sess.ReadMyPacket(ms.DBEnd); err != nil {
				dbErr = "handshake response: " + err.Error()
				return
			}
			if _, err := ms.DBEnd.Write(sess.MyJoin(sess.MySeq(2, (&sess.MyOK{Status: sess.MyStatusAutocommit}).Encode()))); err != nil {
				dbErr = "handshake OK: " + err.Error()
				return
			}
			for {
				p, err := sess.ReadMyPacket(ms.DBEnd)
				if err != nil {
					return // the proxy closed the connection: end of the session
				}
				var out []sess.MyPacket
				if len(p.Payload) == 1 && p.Payload[0] == 0x0e {
					out = sess.MySeq(1, (&sess.MyOK{Status: sess.MyStatusAutocommit}).Encode())
				} else {
					out = db.Respond([]sess.MyPacket{p})
				}
				if sc.ErrorPolicy {
					// packet by packet: the proxy may react (error to the client, next command) while
					// the rest of the answer is still on its way
					for _, op := range out {
						if _, err := ms.DBEnd.Write(sess.MyJoin([]sess.MyPacket{op})); err != nil {
							return
						}
					}
					continue
				}
				if _, err := ms.DBEnd.Write(sess.MyJoin(out)); err != nil {
					return
				}
			}
		})
		return func(x *sched.Execution) []string {
			var fails []string
			if len(ms.Panics) > 0 {
				fails = append(fails, "a proxy pump panicked: "+firstLine(ms.Panics[0]))
			}
			if appErr != "" {
				fails = append(fails, "the application's session broke: "+appErr)
			}
			if dbErr != "" {
				fails = append(fails, "the database side broke: "+dbErr)
			}
			if sc.ErrorPolicy {
				if appErr != "" || len(answers) != 2 {
					return append(fails, fmt.Sprintf("%d of 2 statements were answered", len(answers)))
				}
				first, second := answers[0], answers[1]
				if len(first) != 1 || first[0].Err == nil || len(first[0].Rows) != 0 {
					fails = append(fails, "policy error: the SELECT of the unrevealable column was not answered with exactly an error")
				}
				if len(second) != 1 || second[0].Err != nil || len(second[0].Rows) != 2 || len(second[0].Columns) != 2 ||
					string(second[0].Rows[0][1]) != "p1" || string(second[0].Rows[1][1]) != "p2" {
					fails = append(fails, "the statement after the refused one was not answered with its own rows")
				}
				return fails
			}
			want := 0
			for _, q := range sc.Queries {
				if strings.HasPrefix(q, "select") || q == "X" {
					want++
				}
			}
			got := 0
			for _, sets := range answers {
				for _, set := range sets {
					if len(set.Columns) == 0 {
						continue
					}
					got++
					ci := -1
					for k, c := range set.Columns {
						if string(c.Name) == "c" {
							ci = k
						}
					}
					if ci < 0 || len(set.Rows) != 1 {
						fails = append(fails, "an answer has not the shape of the statement")
						continue
					}
					if !bytes.Equal(set.Rows[0][ci], pumpPlain) {
						what := "another value"
						if bytes.Equal(set.Rows[0][ci], db.Tables["t"].Rows[0][2]) {
							what = "the stored envelope (not decrypted)"
						}
						fails = append(fails, fmt.Sprintf("the owner's SELECT #%d returned %s instead of the original value", got, what))
					}
				}
			}
			if appErr == "" && got != want {
				fails = append(fails, fmt.Sprintf("%d result sets arrived, %d expected", got, want))
			}
			return fails
		}
	}
}

func firstLine(s string) string {
	for i := 0; i < len(s); i++ {
		if s[i] == '\n' {
			return s[:i]
		}
	}
	return s
}

func pumpKey(f string) string {
	b := []byte(f)
	for i, c := range b {
		if c == ' ' {
			b[i] = '_'
		}
	}
	if len(b) > 110 {
		b = b[:110]
	}
	return string(b)
}

func mysqlPumpPhase(r *ev.Run, ks *filesystem.KeyStore, thorough bool) {
	col := mycheck.Block()
	env, err := sess.NewMyEnv(ks, sess.MyEnvOptions{EncryptorConfigYAML: mycheck.ConfigYAML(col, nil)})
	if err != nil {
		ev.Fatalf("pump phase: env: %v", err)
	}
	errCol := mycheck.Typed("acrablock", "int32", "error", nil)
	errEnv, err := sess.NewMyEnv(ks, sess.MyEnvOptions{EncryptorConfigYAML: mycheck.ConfigYAML(errCol, nil)})
	if err != nil {
		ev.Fatalf("pump phase: env (error policy): %v", err)
	}
	pick := func(sc pumpScenario) (*sess.MyEnv, mycheck.Col) {
		if sc.ErrorPolicy {
			return errEnv, errCol
		}
		return env, col
	}
	// (an execution of this phase runs both pumps of a real session: about a millisecond; the
	// explorer is sequential. quick: at most 1 preemption; thorough: 2)
	maxBound := 1
	if thorough {
		maxBound = 2
	}
	scs := pumpScenarios()
	if r.Replay != "" {
		var rp pumpReplay
		r.LoadReplay(&rp)
		for _, sc := range scs {
			if sc.Name == rp.Scenario {
				pe, pc := pick(sc)
				e := &sched.Explorer{Scenario: sc.build(pe, ks, pc), Bound: rp.Bound, MaxSteps: 4000}
				for _, f := range e.Replay(rp.Choices) {
					fmt.Println("replayed:", f)
					r.Violation("C04/mysql-pumps/"+sc.Name+"/"+pumpKey(f), f, rp)
				}
			}
		}
		return
	}
	total := 0
	for _, sc := range scs {
		for bound := 0; bound <= maxBound; bound++ {
			if r.Expired() {
				r.Capped(fmt.Sprintf("pump interleavings %s: preemption bound %d not started", sc.Name, bound))
				break
			}
			pe, pc := pick(sc)
			e := &sched.Explorer{Scenario: sc.build(pe, ks, pc), Bound: bound, Stop: r.Expired, MaxSteps: 4000,
				Outcome: func(x *sched.Execution) string { return fmt.Sprint(len(x.Choices)) }}
			res := e.Run()
			total += res.Executions
			r.Eval(res.Executions)
			r.Traces(res.Executions)
			r.Transitions(res.Transitions)
			if !res.Complete {
				r.Capped(fmt.Sprintf("pump interleavings %s: preemption bound %d partial", sc.Name, bound))
			}
			for _, f := range res.Order {
				rp := pumpReplay{Part: "mysql-pumps", Scenario: sc.Name, Bound: bound, Choices: res.Failures[f], Failure: f}
				again := e.Replay(res.Failures[f])
				ok := false
				for _, a := range again {
					if a == f {
						ok = true
					}
				}
				if !ok {
					ev.Fatalf("pump interleavings %s: failure %q did not replay (%v)", sc.Name, f, again)
				}
				r.Violation("C04/mysql-pumps/"+sc.Name+"/"+pumpKey(f), fmt.Sprintf("%s (preemption bound %d, schedule %v)", f, bound, res.Failures[f]), rp)
			}
			r.Distinct(fmt.Sprintf("mysql-pumps|%s|%d|%d", sc.Name, bound, len(res.Outcomes)))
			if bound == maxBound {
				r.Sample(map[string]interface{}{"part": "mysql-pumps", "scenario": sc.Name, "preemption_bound": bound, "executions": res.Executions, "scheduling_points_max": res.MaxPoints})
			}
		}
	}
	r.States(total)
	r.Set("mysql_pump_interleavings_executions", total)
	r.Set("mysql_pump_interleavings_preemption_bound", maxBound)
}
