package mycheck

import (
	"fmt"
	"strings"

	"verif/fx"
	"verif/sess"
)

// Col describes one variant of a protected column: the YAML settings Acra gets and what the
// harness needs to know about it (who can reveal, what the database column looks like, what a
// reader that cannot reveal is allowed to see).
type Col struct {
	Name  string   // variant name (used in finding keys)
	Lines []string // settings of the column in encryptor-config syntax, one per line
	// DBType is the type of the column in the (scripted) database: BLOB for everything that holds
	// envelopes, the token's own type for tokenized columns.
	DBType byte
	// App is the type the application works with: "bytes", "str", "int32", "int64".
	App   string
	Owner []byte // the identity that can reveal (the session's own client id unless client_id is set)

	Envelope   string // "acrablock", "acrastruct", "" (tokenization only)
	Search     bool
	Token      string // "", "str", "int32", "int64", "bytes", "email"
	Consistent bool
	Masked     bool
	MaskPat    string
	MaskLen    int    // > 0: that many plaintext bytes on the left stay clear; < 0: on the right
	DataType   string // "", "str", "bytes", "int32", "int64"
	OnFail     string // "", "ciphertext", "default_value", "error"
	Default    *string
}

// Block is a column encrypted into an AcraBlock.
func Block() Col {
	return Col{Name: "block", Lines: []string{"crypto_envelope: acrablock"}, DBType: sess.MyTypeBlob, App: "bytes", Owner: fx.Alpha, Envelope: "acrablock"}
}

// Struct is a column encrypted into an AcraStruct.
func Struct() Col {
	return Col{Name: "struct", Lines: []string{"crypto_envelope: acrastruct"}, DBType: sess.MyTypeBlob, App: "bytes", Owner: fx.Alpha, Envelope: "acrastruct"}
}

func envelopeOf(env string) Col {
	if env == "acrastruct" {
		return Struct()
	}
	return Block()
}

// Searchable is a searchable-encrypted column of the given envelope.
func Searchable(env string) Col {
	c := envelopeOf(env)
	c.Name += "-search"
	c.Lines = append(c.Lines, "searchable: true")
	c.Search = true
	return c
}

// Tokenized is a tokenized column of token type typ ("str", "int32", "int64", "bytes", "email").
func Tokenized(typ string, consistent bool) Col {
	c := Col{Name: "token-" + typ, Lines: []string{"token_type: " + typ, "tokenized: true"}, Owner: fx.Alpha, Token: typ, Consistent: consistent}
	if consistent {
		c.Name += "-consistent"
		c.Lines = append(c.Lines, "consistent_tokenization: true")
	}
	switch typ {
	case "int32":
		c.DBType, c.App = sess.MyTypeLong, "int32"
	case "int64":
		c.DBType, c.App = sess.MyTypeLongLong, "int64"
	case "bytes":
		c.DBType, c.App = sess.MyTypeBlob, "bytes"
	default:
		c.DBType, c.App = sess.MyTypeVarString, "str"
	}
	return c
}

// MaskedCol is a masked column: n plaintext bytes on the given side ("left" / "right") stay
// visible to readers that cannot reveal, the rest is replaced by pattern.
func MaskedCol(env, side string, n int, pattern string) Col {
	c := envelopeOf(env)
	c.Name += fmt.Sprintf("-mask-%s%d", side, n)
	c.Lines = append(c.Lines, fmt.Sprintf("masking: %q", pattern), fmt.Sprintf("plaintext_length: %d", n), "plaintext_side: "+side)
	c.Masked, c.MaskPat, c.MaskLen = true, pattern, n
	if side == "right" {
		c.MaskLen = -n
	}
	return c
}

// Typed is a column with a declared application data type and failure policy (onFail "" = not
// given; def nil = no default_data_value).
func Typed(env, dataType, onFail string, def *string) Col {
	c := envelopeOf(env)
	c.Name = "typed-" + dataType + "-" + env
	c.Lines = append(c.Lines, "data_type: "+dataType)
	c.DataType, c.App, c.OnFail, c.Default = dataType, dataType, onFail, def
	if onFail != "" {
		c.Name += "-" + onFail
		c.Lines = append(c.Lines, "response_on_fail: "+onFail)
	}
	if def != nil {
		c.Name += fmt.Sprintf("-default=%q", *def)
		c.Lines = append(c.Lines, fmt.Sprintf("default_data_value: %q", *def))
	}
	return c
}

// OtherClient is a column encrypted for another identity than the session's (client_id of the
// column): whoever writes, only that identity reveals.
func OtherClient(env string, owner []byte) Col {
	c := envelopeOf(env)
	c.Name += "-other-client"
	c.Lines = append(c.Lines, "client_id: "+string(owner))
	c.Owner = owner
	return c
}

// With returns c with further settings appended (e.g. "searchable: true" on a typed column).
func (c Col) With(nameSuffix string, lines ...string) Col {
	c.Name += nameSuffix
	c.Lines = append(append([]string{}, c.Lines...), lines...)
	return c
}

// ConfigYAML is the encryptor config of table t (id, plain, c [, d]); table u is not configured.
func ConfigYAML(c Col, d *Col) string {
	var b strings.Builder
	cols := "id, plain, c"
	if d != nil {
		cols += ", d"
	}
	b.WriteString("schemas:\n  - table: t\n    columns: [" + cols + "]\n    encrypted:\n")
	one := func(name string, col Col) {
		b.WriteString("      - column: " + name + "\n")
		for _, l := range col.Lines {
			b.WriteString("        " + l + "\n")
		}
	}
	one("c", c)
	if d != nil {
		one("d", *d)
	}
	return b.String()
}

// MaskView is what a reader that cannot reveal sees of plain in a masked column.
func (c Col) MaskView(plain []byte) []byte {
	n := c.MaskLen
	if n >= 0 {
		if len(plain) <= n {
			return []byte(c.MaskPat)
		}
		return append(append([]byte{}, plain[:n]...), c.MaskPat...)
	}
	n = -n
	if len(plain) <= n {
		return []byte(c.MaskPat)
	}
	return append([]byte(c.MaskPat), plain[len(plain)-n:]...)
}

// DeclaredType is the MySQL column type Acra documents for a data_type (decryptor/mysql/types:
// str -> MYSQL_TYPE_STRING, bytes -> MYSQL_TYPE_BLOB, int32 -> MYSQL_TYPE_LONG,
// int64 -> MYSQL_TYPE_LONGLONG).
func DeclaredType(dataType string) byte {
	switch dataType {
	case "str":
		return sess.MyTypeString
	case "bytes":
		return sess.MyTypeBlob
	case "int32":
		return sess.MyTypeLong
	case "int64":
		return sess.MyTypeLongLong
	}
	return 0
}
