package main

import (
	"fmt"

	"verif/ev"
	"verif/kslab"
)

// replay re-executes one element: the store configuration, the history, the final operation,
// the faulted seam call and mode (and, for the weak v1 durability model, the lost writes), then
// every follow-up operation, printing what happens; the verdicts are recorded as in a full run.
func replay(r *ev.Run) {
	var c replayT
	r.LoadReplay(&c)
	if c.Flock != nil {
		replayFlock(r, c.Flock)
		r.Finish()
	}
	if c.Ring != nil {
		st := &ringStats{}
		fmt.Printf("replay (v2 key ring API): history %v, operation %s\n", c.Ring.History, c.Ring.Op)
		calls, _ := ringElement(r, st, c.Ring.History, c.Ring.Op, nil, nil, "", true)
		for i, cl := range calls {
			fmt.Printf("      call #%-2d %s\n", i+1, ringCallName(cl))
		}
		r.States(1)
		if c.Ring.Call >= 0 {
			if c.Ring.Call >= len(calls) {
				ev.Fatalf("replay: the operation makes only %d back-end calls", len(calls))
			}
			fs := &faultSpec{k: c.Ring.Call, mode: c.Ring.Mode}
			_, follows := ringElement(r, st, c.Ring.History, c.Ring.Op, fs, calls, "", true)
			for _, f := range follows {
				ringElement(r, st, c.Ring.History, c.Ring.Op, fs, calls, f, true)
			}
		}
		r.Finish()
	}
	w := newWorld(c.Config, c.Test.Kind)
	if w.by != c.Bystander {
		ev.Fatalf("replay: bystander slot %s does not match this version of the check (%s)", c.Bystander, w.by)
	}
	rn := &runner{r: r}
	j := job{w: w, pre: preState{hist: c.History}, op: c.Op}
	fmt.Printf("replay on %s: set-up %s; history %s; final operation %s\n", c.Config.Name(), kslab.HistoryString(w.prefix), kslab.HistoryString(c.History), c.Op)
	rn.replayJob(j, &c)
	r.Finish()
}

func (rn *runner) replayJob(j job, only *replayT) {
	w := j.w
	lab := w.newLab()
	lab.Replay(j.pre.hist)
	c := &jobCtx{runner: rn, j: j, lab: lab, seam: lab.S.Seam(), only: only}
	defer func() { c.lab.Close() }()
	var err error
	if c.cpOld, err = lab.Checkpoint(); err != nil {
		ev.Fatalf("%v", err)
	}
	if !w.cfg.Cached() {
		c.rollback(c.cpOld)
	}
	c.pre = lab.State()
	c.opClass = w.opClass(j.op, c.pre.Slot(w.test))
	fmt.Printf("  pre-state: %s\n", stateSig(c.pre))
	c.seam.ResetLog()
	c.seam.Record(true)
	res0 := w.apply(lab, j.op)
	c.calls = c.seam.Log()
	c.seam.Record(false)
	c.neu = lab.State()
	if c.cpNew, err = lab.Checkpoint(); err != nil {
		ev.Fatalf("%v", err)
	}
	fmt.Printf("  without fault: %s returns %v, keys afterwards: %s; %d seam calls:\n", j.op, res0.Err, stateSig(c.neu), len(c.calls))
	for i, cl := range c.calls {
		fmt.Printf("      call #%-2d %s\n", i+1, w.callName(cl))
	}
	rn.r.States(1)
	c.judgeUnfaulted(res0)
	c.fuOld = w.followUps(c.pre, j.op)
	c.fuNew = w.followUps(c.neu, j.op)
	c.refOld = c.references(c.cpOld, c.fuOld)
	c.refNew = c.references(c.cpNew, c.fuNew)
	if only.Call < 0 {
		return
	}
	if only.Call >= len(c.calls) {
		ev.Fatalf("replay: the operation makes only %d seam calls", len(c.calls))
	}
	c.runFault(faultSpec{k: only.Call, mode: only.Mode, lost: only.Lost})
}
