// Package pgcheck is the shared part of the session-level checks (C04, C05, C09, C19): a
// column configuration, the statement type, and the runner that executes a statement history
// through the real PostgreSQL proxy against a protected reference database while a shadow
// reference database (which never sees Acra) defines what the owning client must observe.
package pgcheck

import (
	"bytes"
	"encoding/binary"
	"errors"
	"fmt"
	"os"
	"regexp"
	"sort"
	"strconv"
	"strings"

	"github.com/jackc/pgx/v5/pgproto3"

	"verif/ev"
	"verif/fx"
	"verif/sess"
)

type ColCfg struct {
	Name    string
	YAML    string // settings of column c (indented lines)
	Prot    uint32 // type of column c in the protected database
	Shadow  uint32 // type of column c as the application sees it
	Owner   []byte // identity that can decrypt
	Writer  []byte // identity of the writing session
	Masked  bool
	Token   bool
	Search  bool
	MaskPat string
	MaskLen int
}

func (c ColCfg) ConfigYAML() string {
	return "schemas:\n  - table: t\n    columns: [id, plain, c]\n    encrypted:\n      - column: c\n        " + c.YAML + "\n"
}

func (c ColCfg) NewDB(shadow bool) *sess.PGDB {
	db := sess.NewPGDB()
	typ := c.Prot
	if shadow {
		typ = c.Shadow
	}
	db.AddTable("t", sess.PGColumn{Name: "id", OID: sess.OIDInt4}, sess.PGColumn{Name: "plain", OID: sess.OIDText}, sess.PGColumn{Name: "c", OID: typ})
	u := db.AddTable("u", sess.PGColumn{Name: "id", OID: sess.OIDInt4}, sess.PGColumn{Name: "note", OID: sess.OIDText})
	for i := 1; i <= 3; i++ {
		u.Rows = append(u.Rows, [][]byte{[]byte(strconv.Itoa(i)), []byte(fmt.Sprintf("note-%d", i))})
	}
	return db
}

func Printable(v []byte) bool {
	for _, b := range v {
		if b < 32 || b > 126 || b == '\\' {
			return false
		}
	}
	return true
}

// literal spellings of v for a column of shadow type oid
func Literals(oid uint32, v []byte) []string {
	switch oid {
	case sess.OIDInt4, sess.OIDInt8:
		return []string{string(v)}
	case sess.OIDText:
		return []string{sess.QuoteLit(v)}
	}
	out := []string{sess.HexLit(v)}
	if Printable(v) && len(v) > 0 {
		out = append(out, sess.QuoteLit(v))
	}
	return out
}

// text-format parameter spellings
func TextParams(oid uint32, v []byte) [][]byte {
	if oid == sess.OIDBytea {
		out := [][]byte{[]byte(`\x` + fmt.Sprintf("%x", v))}
		if Printable(v) && len(v) > 0 {
			out = append(out, v)
		}
		return out
	}
	return [][]byte{v}
}

func BinParam(oid uint32, v []byte) []byte {
	if oid == sess.OIDInt4 {
		n, _ := strconv.ParseInt(string(v), 10, 32)
		var b [4]byte
		binary.BigEndian.PutUint32(b[:], uint32(int32(n)))
		return b[:]
	}
	return v
}

type Stmt struct {
	sess.Stmt
	Kind  string
	Write bool
	// ShadowMsgs, when set, is what the reference (shadow) database executes instead of Msgs:
	// the plaintext statement equivalent to a statement that carries a value the application
	// already encrypted
	ShadowMsgs []pgproto3.FrontendMessage
}

func (st Stmt) forShadow() []pgproto3.FrontendMessage {
	if st.ShadowMsgs != nil {
		return st.ShadowMsgs
	}
	return st.Msgs
}

func Mk(kind, desc string, write, prot bool, msgs []pgproto3.FrontendMessage, secrets ...[]byte) Stmt {
	return Stmt{Stmt: sess.Stmt{Desc: desc, Msgs: msgs, Secrets: secrets, Protected: prot}, Kind: kind, Write: write}
}

func I4(n int) []byte { return []byte(strconv.Itoa(n)) }

var substrRe = regexp.MustCompile(`substr\(((?:\w+\.)?c), 1, 33\)`)

// Violation is one oracle failure with its stable key.
type Violation struct{ Key, Msg string }

func RawOf(ms []sess.Msg) []byte {
	var b []byte
	for _, m := range ms {
		b = append(b, m.Raw...)
	}
	return b
}

func EncodeAll(msgs []pgproto3.FrontendMessage) []byte {
	var b []byte
	for _, m := range msgs {
		b, _ = m.Encode(b)
	}
	return b
}

func HarnessErr(ms []sess.Msg) string {
	for _, m := range ms {
		if e, ok := m.B.(*pgproto3.ErrorResponse); ok && e.Code == "XXVRF" {
			return e.Message
		}
	}
	return ""
}

// Runner executes statement histories for one column configuration.
type Runner struct {
	Property string
	R        *ev.Run
	Env      *sess.PGEnv
	Cfg      ColCfg
	// Audits are the read statements executed at the end by the owner and by the identities that
	// cannot decrypt (default: select all in text and in binary format).
	Audits []Stmt
	// After, when set, is called with the protected and the shadow database after the audits.
	After func(prot, shadow *sess.PGDB, add func(key, format string, a ...interface{}))
}

// expectedMasked computes what a non-owner must see for a masked column.
func (rn *Runner) MaskView(plain []byte) []byte {
	n := rn.Cfg.MaskLen
	if n >= 0 {
		if len(plain) <= n {
			return []byte(rn.Cfg.MaskPat)
		}
		return append(append([]byte{}, plain[:n]...), rn.Cfg.MaskPat...)
	}
	n = -n
	if len(plain) <= n {
		return []byte(rn.Cfg.MaskPat)
	}
	return append([]byte(rn.Cfg.MaskPat), plain[len(plain)-n:]...)
}

// run executes the statements as the writer identity, then audits; returns violations and a
// canonical state key (shadow table contents + named statements) for de-duplication.
func (rn *Runner) Run(stmts []Stmt) (viol []Violation, state string, harness string) {
	c := rn.Cfg
	prot, shadow := c.NewDB(false), c.NewDB(true)
	add := func(key, format string, a ...interface{}) {
		viol = append(viol, Violation{rn.Property + "/" + c.Name + "/" + key, fmt.Sprintf(format, a...)})
	}
	ownerIsWriter := bytes.Equal(c.Owner, c.Writer)
	s, err := sess.NewPGSession(rn.Env, c.Writer, nil)
	if err != nil {
		return nil, "", "session: " + err.Error()
	}
	defer s.Close()
	if err := s.Startup(); err != nil {
		return nil, "", "startup: " + err.Error()
	}
	var secrets [][]byte
	step := func(ps *sess.PGSession, st Stmt, reference *sess.PGDB, role string) bool {
		res, err := ps.Step(st.Msgs, prot.Respond)
		rn.R.Transitions(1)
		if errors.Is(err, sess.ErrMalformed) {
			add(st.Kind+"/"+role+"/malformed-message", "the independent codec cannot decode what the proxy emitted: %v", err)
			return false
		}
		if err != nil {
			harness = fmt.Sprintf("%s %s: %v", role, st.Kind, err)
			return false
		}
		if os.Getenv("VERIF_TRACE") != "" && err == nil {
			fmt.Fprintf(os.Stderr, "TRACE %s %s\n  db got:  %q\n  db sent: %q\n  client:  %q\n", role, st.Kind, RawOf(res.DB), RawOf(res.DBSent), RawOf(res.Client))
		}
		var want []sess.Msg
		if reference != nil {
			want = reference.Direct(st.forShadow())
		} else {
			want = res.DBSent
			if st.Write {
				shadow.Direct(st.forShadow()) // keep the shadow in step with what was written
			}
		}
		if h := HarnessErr(res.DBSent); h != "" {
			harness = fmt.Sprintf("%s %s (protected db): %s", role, st.Kind, h)
			return false
		}
		if h := HarnessErr(want); h != "" {
			harness = fmt.Sprintf("%s %s (reference db): %s", role, st.Kind, h)
			return false
		}
		if len(ps.Panics) > 0 {
			add(st.Kind+"/"+role+"/panic", "proxy goroutine panicked: %v", ps.Panics)
			return false
		}
		if res.Terminated {
			add(st.Kind+"/"+role+"/terminated", "proxy closed the session: %v", ps.ProxyErrors)
			return false
		}
		typed := c.Prot != c.Shadow
		if d := sess.DiffOpt(res.Client, want, typed); d != "" {
			add(st.Kind+"/"+role+"/result-differs", "%s statement %q: client received something else than the reference database answers: %s", role, st.Kind, d)
		}
		dbRaw := RawOf(res.DB)
		for _, sec := range append(append([][]byte{}, secrets...), st.Secrets...) {
			if len(sec) < 5 {
				continue
			}
			if enc := sess.ContainsSecret(dbRaw, sec); enc != "" {
				add(st.Kind+"/"+role+"/plaintext-to-db", "plaintext %.20q reached the database (%s encoding) in statement %q", sec, enc, st.Kind)
			}
		}
		if !st.Protected {
			if sent := EncodeAll(st.Msgs); !bytes.Equal(dbRaw, sent) {
				add(st.Kind+"/"+role+"/unprotected-statement-changed", "statement without protected columns was not forwarded byte-for-byte: sent %.100q, database got %.100q", sent, dbRaw)
			}
			if !bytes.Equal(RawOf(res.Client), RawOf(res.DBSent)) {
				add(st.Kind+"/"+role+"/unprotected-result-changed", "result of a statement without protected columns was not relayed byte-for-byte")
			}
		} else {
			// rewritten statement keeps its shape
			for i, m := range st.Msgs {
				var orig string
				switch q := m.(type) {
				case *pgproto3.Query:
					orig = q.String
				case *pgproto3.Parse:
					orig = q.Query
				default:
					continue
				}
				if i < len(res.DB) {
					var fwd string
					switch q := res.DB[i].F.(type) {
					case *pgproto3.Query:
						fwd = q.String
					case *pgproto3.Parse:
						fwd = q.Query
					}
					if c.Search {
						// the documented rewrite of an equality on a searchable column
						fwd = substrRe.ReplaceAllString(fwd, "$1")
					}
					same, err := sess.SameShape(orig, fwd)
					if (err != nil || !same) && st.ShapeAs != "" {
						same, err = sess.SameShape(st.ShapeAs, fwd)
					}
					if err != nil || !same {
						add(st.Kind+"/"+role+"/shape-changed", "forwarded statement has another shape: %q -> %q (%v)", orig, fwd, err)
					}
				}
			}
		}
		return true
	}
	for _, st := range stmts {
		// the writer is the owner in all but the per-column-client configuration; there the
		// writer cannot read back what it wrote, so its own reads are compared with the stored form
		ref := shadow
		if !ownerIsWriter {
			ref = nil // the writer cannot decrypt what it writes: it sees the stored form
		}
		if !step(s, st, ref, "writer") {
			return
		}
		secrets = append(secrets, st.Secrets...)
	}
	// audit by the owner (fresh session when the owner is another identity)
	owner := s
	if !ownerIsWriter {
		o, err := sess.NewPGSession(rn.Env, c.Owner, nil)
		if err != nil {
			return nil, "", err.Error()
		}
		defer o.Close()
		if err := o.Startup(); err != nil {
			return nil, "", err.Error()
		}
		prot.ResetSession()
		owner = o
	}
	audits := rn.Audits
	if audits == nil {
		audits = []Stmt{
			Mk("audit-select-all-text", "", false, true, sess.Q("select id, plain, c from t")),
			Mk("audit-select-all-binary", "", false, true, sess.Ext("", "select c, id from t", nil, nil, []int16{1}, nil)),
		}
	}
	for _, a := range audits {
		if !step(owner, a, shadow, "owner") {
			return
		}
	}
	// stored values are never the plaintext
	pt, st := prot.Tables["t"], shadow.Tables["t"]
	if len(pt.Rows) != len(st.Rows) {
		add("audit/row-count", "protected database has %d rows, reference %d", len(pt.Rows), len(st.Rows))
	} else {
		for i := range pt.Rows {
			p, q := pt.Rows[i][2], st.Rows[i][2]
			if q == nil || len(q) == 0 {
				continue
			}
			if c.Token && c.Shadow == sess.OIDInt4 {
				if bytes.Equal(p, q) {
					add("audit/stored-equals-plaintext", "tokenized integer stored unchanged: %q", q)
				}
				continue
			}
			if len(q) >= 4 && bytes.Contains(p, q) && !(c.Masked) {
				add("audit/stored-contains-plaintext", "stored value of protected column contains the plaintext %.20q", q)
			}
			if c.Masked && len(q) >= 8 {
				// the part masking hides (plaintext_length 2 on the left, |MaskLen| on the right: as before);
				// other plaintext lengths: the bytes outside the visible side, the whole value when it is
				// not longer than plaintext_length
				hidden := q
				if n := c.MaskLen; n > 0 && n < len(q) {
					hidden = q[n:]
				} else if n < 0 && -n < len(q) {
					hidden = q[:len(q)+n]
				}
				if len(hidden) >= 5 && bytes.Contains(p, hidden) {
					add("audit/stored-contains-hidden-part", "stored value of masked column contains the hidden part %.20q", hidden)
				}
			}
		}
	}
	if rn.After != nil {
		rn.After(prot, shadow, add)
	}
	// audit by identities that cannot decrypt
	for _, other := range [][]byte{fx.Bravo, fx.NoKeys, fx.Alpha} {
		if bytes.Equal(other, c.Owner) {
			continue
		}
		o, err := sess.NewPGSession(rn.Env, other, nil)
		if err != nil {
			return nil, "", err.Error()
		}
		if err := o.Startup(); err != nil {
			o.Close()
			return nil, "", err.Error()
		}
		prot.ResetSession()
		var ref *sess.PGDB
		if c.Masked {
			ref = shadow.Clone()
			for _, row := range ref.Tables["t"].Rows {
				if row[2] != nil && len(row[2]) > 0 {
					row[2] = rn.MaskView(row[2])
				}
			}
		} else {
			ref = prot.Clone()
			if c.Prot != c.Shadow {
				// typed column, failure policy "ciphertext" (the default): the stored bytes are handed
				// over as they are in a field announced as the declared type
				ref.Tables["t"].Cols[2].OID = c.Shadow
			}
		}
		for _, a := range audits {
			if !step(o, a, ref, "non-owner:"+RoleName(other)) {
				break
			}
		}
		o.Close()
		if harness != "" {
			return
		}
	}
	// canonical state
	var rows []string
	for _, r := range st.Rows {
		rows = append(rows, fmt.Sprintf("%s|%s|%x", r[0], r[1], r[2]))
	}
	sort.Strings(rows)
	state = strings.Join(rows, ";")
	return
}

func RoleName(id []byte) string {
	switch string(id) {
	case string(fx.NoKeys):
		return "no-keys"
	}
	return "other-keys"
}
