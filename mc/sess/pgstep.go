package sess

import (
	"errors"
	"fmt"
	"io"
	"os"
	"time"

	"github.com/jackc/pgx/v5/pgproto3"
)

// Msg is a decoded protocol message together with its wire bytes.
type Msg struct {
	F   pgproto3.FrontendMessage
	B   pgproto3.BackendMessage
	Raw []byte
}

// StepResult is what one lock-step exchange produced.
type StepResult struct {
	DB         []Msg // frontend messages that reached the database (the trailing Flush barrier removed)
	Client     []Msg // backend messages that reached the client (the trailing notice barrier removed)
	DBSent     []Msg // backend messages the database end answered with (barrier excluded)
	Terminated bool  // the proxy closed the session during this step
	// NoBarrierAtDB: the proxy went quiet without forwarding the Flush barrier (it is discarding
	// the rest of an extended query)
	NoBarrierAtDB bool
	Note       string
}

// ErrHarness marks errors of the driver itself (timeouts).
var ErrHarness = errors.New("sess: harness error")

// ErrMalformed marks traffic emitted by the proxy that the independent codec cannot decode:
// a verdict about the proxy (malformed message), not a harness problem.
var ErrMalformed = errors.New("sess: proxy emitted a malformed message")

func cloneFrontend(m pgproto3.FrontendMessage) (Msg, error) {
	raw, err := m.Encode(nil)
	if err != nil {
		return Msg{}, err
	}
	var c pgproto3.FrontendMessage
	switch m.(type) {
	case *pgproto3.Query:
		c = &pgproto3.Query{}
	case *pgproto3.Parse:
		c = &pgproto3.Parse{}
	case *pgproto3.Bind:
		c = &pgproto3.Bind{}
	case *pgproto3.Describe:
		c = &pgproto3.Describe{}
	case *pgproto3.Execute:
		c = &pgproto3.Execute{}
	case *pgproto3.Sync:
		c = &pgproto3.Sync{}
	case *pgproto3.Flush:
		c = &pgproto3.Flush{}
	case *pgproto3.Close:
		c = &pgproto3.Close{}
	case *pgproto3.Terminate:
		c = &pgproto3.Terminate{}
	case *pgproto3.CopyData:
		c = &pgproto3.CopyData{}
	case *pgproto3.CopyDone:
		c = &pgproto3.CopyDone{}
	case *pgproto3.CopyFail:
		c = &pgproto3.CopyFail{}
	case *pgproto3.FunctionCall:
		c = &pgproto3.FunctionCall{}
	case *pgproto3.PasswordMessage:
		c = &pgproto3.PasswordMessage{}
	default:
		return Msg{F: m, Raw: raw}, nil
	}
	if err := c.Decode(append([]byte{}, raw[5:]...)); err != nil {
		return Msg{}, err
	}
	return Msg{F: c, Raw: raw}, nil
}

func cloneBackend(m pgproto3.BackendMessage) (Msg, error) {
	raw, err := m.Encode(nil)
	if err != nil {
		return Msg{}, err
	}
	var c pgproto3.BackendMessage
	switch m.(type) {
	case *pgproto3.RowDescription:
		c = &pgproto3.RowDescription{}
	case *pgproto3.DataRow:
		c = &pgproto3.DataRow{}
	case *pgproto3.CommandComplete:
		c = &pgproto3.CommandComplete{}
	case *pgproto3.ReadyForQuery:
		c = &pgproto3.ReadyForQuery{}
	case *pgproto3.ErrorResponse:
		c = &pgproto3.ErrorResponse{}
	case *pgproto3.NoticeResponse:
		c = &pgproto3.NoticeResponse{}
	case *pgproto3.ParseComplete:
		c = &pgproto3.ParseComplete{}
	case *pgproto3.BindComplete:
		c = &pgproto3.BindComplete{}
	case *pgproto3.CloseComplete:
		c = &pgproto3.CloseComplete{}
	case *pgproto3.NoData:
		c = &pgproto3.NoData{}
	case *pgproto3.ParameterDescription:
		c = &pgproto3.ParameterDescription{}
	case *pgproto3.ParameterStatus:
		c = &pgproto3.ParameterStatus{}
	case *pgproto3.EmptyQueryResponse:
		c = &pgproto3.EmptyQueryResponse{}
	case *pgproto3.PortalSuspended:
		c = &pgproto3.PortalSuspended{}
	case *pgproto3.BackendKeyData:
		c = &pgproto3.BackendKeyData{}
	case *pgproto3.NotificationResponse:
		c = &pgproto3.NotificationResponse{}
	default:
		return Msg{B: m, Raw: raw}, nil
	}
	if err := c.Decode(append([]byte{}, raw[5:]...)); err != nil {
		return Msg{}, err
	}
	return Msg{B: c, Raw: raw}, nil
}

func isClosed(err error) bool {
	return errors.Is(err, io.EOF) || errors.Is(err, io.ErrUnexpectedEOF) || errors.Is(err, io.ErrClosedPipe)
}

// Startup performs the start-up exchange (no TLS): StartupMessage -> AuthenticationOk,
// ParameterStatus, BackendKeyData, ReadyForQuery.
func (ps *PGSession) Startup() error {
	ps.Front.Send(&pgproto3.StartupMessage{ProtocolVersion: pgproto3.ProtocolVersionNumber, Parameters: map[string]string{"user": "u", "database": "d"}})
	if err := ps.Front.Flush(); err != nil {
		return err
	}
	ps.DBEnd.SetReadDeadline(time.Now().Add(ps.Timeout))
	if _, err := ps.Back.ReceiveStartupMessage(); err != nil {
		return fmt.Errorf("%w: startup at database end: %v", ErrHarness, err)
	}
	ps.Back.Send(&pgproto3.AuthenticationOk{})
	ps.Back.Send(&pgproto3.ParameterStatus{Name: "server_version", Value: "14.0"})
	ps.Back.Send(&pgproto3.ParameterStatus{Name: "client_encoding", Value: "UTF8"})
	ps.Back.Send(&pgproto3.BackendKeyData{ProcessID: 1, SecretKey: 2})
	ps.Back.Send(&pgproto3.ReadyForQuery{TxStatus: 'I'})
	if err := ps.Back.Flush(); err != nil {
		return err
	}
	ps.ClientEnd.SetReadDeadline(time.Now().Add(ps.Timeout))
	for {
		m, err := ps.Front.Receive()
		if err != nil {
			return fmt.Errorf("%w: startup at client end: %v", ErrHarness, err)
		}
		if _, ok := m.(*pgproto3.ReadyForQuery); ok {
			return nil
		}
	}
}

// Responder answers the frontend messages that reached the database in one step.
type Responder func(received []pgproto3.FrontendMessage) []pgproto3.BackendMessage

// Step sends msgs followed by a Flush barrier from the client end, collects everything that
// arrives at the database end up to that barrier, lets respond answer, appends a
// NoticeResponse barrier and collects everything that arrives at the client end up to it.
// No timing is involved: both pumps are sequential and both connections FIFO, so when a
// barrier arrives everything the proxy emitted for the step has arrived before it.
func (ps *PGSession) Step(msgs []pgproto3.FrontendMessage, respond Responder) (*StepResult, error) {
	return ps.StepRaw(nil, msgs, respond)
}

// StepRaw is Step with optional raw bytes written instead of encoded msgs (C12).
func (ps *PGSession) StepRaw(raw []byte, msgs []pgproto3.FrontendMessage, respond Responder) (*StepResult, error) {
	res := &StepResult{}
	if raw != nil {
		if _, err := ps.ClientEnd.Write(raw); err != nil {
			res.Terminated = true
			return res, nil
		}
	}
	for _, m := range msgs {
		ps.Front.Send(m)
	}
	ps.Front.Send(&pgproto3.Flush{})
	if err := ps.Front.Flush(); err != nil {
		res.Terminated = true
		return res, nil
	}
	// database end: read up to the Flush barrier
	ps.DBEnd.SetReadDeadline(time.Now().Add(ps.Timeout))
	var got []pgproto3.FrontendMessage
	for {
		m, err := ps.Back.Receive()
		if err != nil {
			if isClosed(err) {
				res.Terminated = true
				break
			}
			if errors.Is(err, ErrQuiescent) {
				// the proxy sleeps and the barrier has not arrived: either it swallowed the rest of the
				// group (legitimate while it discards an extended query) or the forwarded stream ends
				// inside a message
				res.NoBarrierAtDB = true
				if pending := ps.DBEnd.pendingBytes(); pending > 0 || ps.backHasPartial() {
					return res, fmt.Errorf("%w: stream to the database ends inside a message", ErrMalformed)
				}
				break
			}
			if errors.Is(err, os.ErrDeadlineExceeded) {
				return res, fmt.Errorf("%w: timeout waiting for barrier at database end", ErrHarness)
			}
			return res, fmt.Errorf("%w: database end cannot decode forwarded traffic: %v", ErrMalformed, err)
		}
		if _, ok := m.(*pgproto3.Flush); ok {
			break
		}
		c, err := cloneFrontend(m)
		if err != nil {
			return res, fmt.Errorf("%w: clone: %v", ErrHarness, err)
		}
		res.DB = append(res.DB, c)
		got = append(got, c.F)
	}
	if !res.Terminated {
		var answers []pgproto3.BackendMessage
		if respond != nil {
			answers = respond(got)
		}
		for _, a := range answers {
			ps.Back.Send(a)
			if c, err := cloneBackend(a); err == nil {
				res.DBSent = append(res.DBSent, c)
			}
		}
		ps.notice++
		barrier := fmt.Sprintf("verif-barrier-%d", ps.notice)
		ps.Back.Send(&pgproto3.NoticeResponse{Severity: "NOTICE", Code: "00000", Message: barrier})
		if err := ps.Back.Flush(); err != nil {
			res.Terminated = true
		}
		// client end: read up to the notice barrier
		ps.ClientEnd.SetReadDeadline(time.Now().Add(ps.Timeout))
		for !res.Terminated {
			m, err := ps.Front.Receive()
			if err != nil {
				if isClosed(err) {
					res.Terminated = true
					break
				}
				if errors.Is(err, ErrQuiescent) {
					return res, fmt.Errorf("%w: the proxy went quiet before the barrier reached the client: the stream to the client is desynchronised or a relayed message was dropped", ErrMalformed)
				}
				if errors.Is(err, os.ErrDeadlineExceeded) {
					return res, fmt.Errorf("%w: timeout waiting for barrier at client end", ErrHarness)
				}
				return res, fmt.Errorf("%w: client end cannot decode traffic: %v", ErrMalformed, err)
			}
			if n, ok := m.(*pgproto3.NoticeResponse); ok && n.Message == barrier {
				break
			}
			c, err := cloneBackend(m)
			if err != nil {
				return res, fmt.Errorf("%w: clone: %v", ErrHarness, err)
			}
			res.Client = append(res.Client, c)
		}
	}
	if res.Terminated {
		// drain whatever reached the client before the connection went down
		ps.ClientEnd.SetReadDeadline(time.Now().Add(2 * time.Second))
		for {
			m, err := ps.Front.Receive()
			if err != nil {
				break
			}
			if c, err := cloneBackend(m); err == nil {
				res.Client = append(res.Client, c)
			}
		}
	}
	return res, nil
}

func (c *Conn) pendingBytes() int {
	c.in.hub.mu.Lock()
	defer c.in.hub.mu.Unlock()
	return len(c.in.buf)
}

// backHasPartial cannot look into pgproto3's chunk reader; a partially received message shows
// as a read that hit quiescence after consuming bytes, which pgproto3 reports as an error other
// than ErrQuiescent only when the header was complete. Conservatively: no.
func (ps *PGSession) backHasPartial() bool { return false }
