// C05 - a statement rejected by the SQL firewall never reaches the database.
//
// Part (a) "verdict" (this file and verdict.go): bounded-exhaustive comparison of the real
// AcraCensor (configurations loaded through the real YAML loader, verdicts from the real
// HandleQuery) with an independent evaluator of the documented chain and rule semantics, over
//   - every rule derivable from a pool of statements (its text as `queries` rule, its tables as
//     `tables` rules, and the `patterns` rule for EVERY subset of its generalisable positions),
//     each alone as deny rule and as allow rule in front of denyall,
//   - every chain up to a length over a handler alphabet {allowall, denyall, allow(R), deny(R),
//     query_ignore(Q)} with R from a stated core of rule sets,
//   - ignore_parse_error on / off, MySQL and PostgreSQL dialect,
//   - every pool statement in 9 formatting variants plus 10 unparsable strings; the pool writes tables
//     bare, quoted and with a schema / database qualifier (s1.t1), and the `tables` rules are the bare
//     names (the documented form) and the qualified spellings of the pool's tables,
//   - stacked statements (stack.go): one client message that carries 2 or 3 pool statements separated
//     by ';' - every ordered tuple over a stated sub-pool, in 2 (thorough: 3) spellings of the separator -
//     judged on every configuration of the chain layers (thorough: of every layer). Such a message is
//     forwarded as a whole, so it must not be admitted on the strength of a part of it.
//
// The statements are terms of the check's own representation (term.go); SQL text, rules and the
// reference matcher (rules.go) are derived from the terms, never from Acra's AST.
//
// Part (b) "enforcement" (proxy sessions, enforce.go / mysql_enforce.go) is a separate phase added to
// main below; its statement alphabets contain stacked messages too (admitted + denied statement in
// one simple-query message / COM_QUERY packet, both orders): nothing of them may reach the database.
package main

import (
	"fmt"
	"io"
	"os"
	"runtime/debug"
	"strconv"
	"time"

	"github.com/sirupsen/logrus"

	"verif/ev"
)

var ballast []byte

func quiet() {
	logrus.SetOutput(io.Discard)
	logrus.SetLevel(logrus.PanicLevel)
}

func replay(r *ev.Run) {
	var probe struct {
		Phase string `json:"phase"`
	}
	r.LoadReplay(&probe)
	if probe.Phase == "enforce" {
		enforcementPhase(r)
		r.Finish()
	}
	if probe.Phase == "mysql-enforce" {
		mysqlEnforcementPhase(r)
		r.Finish()
	}
	var c replayT
	r.LoadReplay(&c)
	w := newWorld(c.Tier == "thorough")
	r.Tier = c.Tier
	setDialect(c.Dialect)
	y := w.yamlOf(c.Config, c.Dialect)
	if string(y) != c.YAML {
		fmt.Printf("replay: note: regenerated configuration differs from the recorded one; using the recorded YAML\n")
		y = []byte(c.YAML)
	}
	fmt.Printf("replay: dialect=%s\n--- configuration\n%s--- statement\n%s\n", c.Dialect, y, c.Statement)
	censor, err := load(y)
	if err != nil {
		fmt.Printf("replay: LoadConfiguration: %v\n", err)
		r.Violation("C05/verdict/loader/configuration-rejected/"+w.ruleKinds(c.Config), "LoadConfiguration refused the configuration: "+err.Error(), c)
		r.Finish()
	}
	defer censor.ReleaseAll()
	fmt.Printf("replay: AcraCensor verdict on the recorded text: %s (recorded: %s, expected: %s)\n", handle(censor, c.Statement), c.Observed, c.Expected)
	if c.Stmt >= len(w.pool) || -c.Stmt-1 >= len(unparsable) {
		ev.Fatalf("replay: statement index %d outside the pool", c.Stmt)
	}
	if len(c.Stack) > 0 {
		st := stackT{Parts: c.Stack}
		for _, si := range c.Stack {
			if si < 0 || si >= len(w.pool) {
				ev.Fatalf("replay: statement index %d outside the pool", si)
			}
		}
		if got := w.stackText(c.Dialect, st, c.Spelling); got != c.Statement {
			ev.Fatalf("replay: the pool changed: stacked message %v spelling %d is now %q", c.Stack, c.Spelling, got)
		}
		a := newAcc()
		w.judgeStack(r, a, c.Dialect, c.Config, censor, y, st, make([]string, len(w.pool)))
		a.flush(r)
		r.States(1)
		r.Traces(1)
		r.Finish()
	}
	if got := w.stmtText(c.Dialect, c.Stmt, c.Variant); got != c.Statement {
		ev.Fatalf("replay: the pool changed: statement %d variant %d is now %q", c.Stmt, c.Variant, got)
	}
	a := newAcc()
	w.judge(r, a, c.Dialect, c.Config, censor, y, c.Stmt)
	a.flush(r)
	r.States(1)
	r.Traces(1)
	r.Finish()
}

func main() {
	r := ev.New("C05", "model_checking")
	quiet()
	// Acra's parser allocates a large parser stack per call while the live heap of this program is
	// tiny: with the default GC target the collector runs thousands of times per second and
	// serialises the workers. An untouched ballast makes the collector wait for ~1 GiB of garbage.
	mb := 512
	if v, err := strconv.Atoi(os.Getenv("C05_BALLAST_MB")); err == nil {
		mb = v
	}
	ballast = make([]byte, mb<<20)
	debug.SetGCPercent(100)
	if r.Replay != "" {
		replay(r)
	}
	t0 := time.Now()
	w := newWorld(r.Thorough())
	if os.Getenv("C05_DEBUG") != "" {
		fmt.Fprintf(os.Stderr, "world: %d statements, %d rules, %.1fs\n", len(w.pool), len(w.rules), time.Since(t0).Seconds())
	}
	verdictPhase(r, w)
	enforcementPhase(r)
	mysqlEnforcementPhase(r) // last: switches the process-wide SQL dialect to MySQL

	r.Rule("verdict: state = one firewall configuration (chain of handlers with rule sets, ignore_parse_error, dialect; " +
		"layers: every derivable rule alone in [deny(r)] and [allow(r),denyall]; [thorough: every pair of core rules in the same two contexts;] " +
		"every chain of length <= 2 over the core handler alphabet; [thorough: every chain of length 3 over the small alphabet]) x one statement class " +
		"(pool statement, unparsable string, or - on the chain layers [thorough: on every layer] - one stacked message: an ordered tuple of 2 or 3 statements of a stated sub-pool written into one client message, separated by ';'); transition = one HandleQuery call of the real AcraCensor (every statement in every formatting variant); " +
		"a stacked message is sent in 2 [thorough: 3] spellings of the separator; it must be rejected when the documented semantics reject it both as unparsable text and because one of its statements is rejected on its own, admitted when both readings admit it, and get one verdict for all spellings; " +
		"traces = configurations loaded through LoadConfiguration; distinct_nontrivial = distinct (chain shape, rule kinds and placeholder classes per handler, statement kind, AcraCensor verdict class)")
	r.Assume(
		"reference semantics taken from the repository's own documentation: package docs, handler doc comments, configs/acra-censor.example.yaml and the acra-censor unit tests (see comments in rules.go / chain.go)",
		"tables rules are compared only for tables read at top level (FROM incl. joins) and INSERT targets; sub-selects, derived tables, INSERT...SELECT sources, UNION branches and UPDATE/DELETE targets are not compared when they could change the answer",
		"tables rules and schema / database qualifiers: a deny rule with a bare name covers the table under every qualifier, a rule written with a qualifier covers the table written with that qualifier; an allow rule with a bare name against a qualified table, and a qualified rule against a bare table, are not compared (whether they name one table depends on the connection's schema); patterns and queries rules compare the qualifier like any other identifier",
		"stacked statements: a message of several ';'-separated statements may be treated as unparsable text (rejected unless ignore_parse_error, then decided by allowall / denyall / query_ignore) or as the sequence of its statements (admitted only if each is admitted on its own); a verdict either reading yields is accepted, so with ignore_parse_error a message that carries a denied statement may pass a deny handler as unparsable text - the configuration tolerates it explicitly",
		"identifier case: patterns compare identifiers case-insensitively (as sqlparser documents); queries / tables / query_ignore rules against a statement that differs only in identifier case are not compared",
		"%%WHERE%% against a statement without WHERE clause and %%WHERE%% inside UPDATE / DELETE patterns are not compared (not covered by the repository's documentation)",
		"an empty handler list means the firewall is switched off (documented in HandleQuery): everything passes, unparsable statements included",
		"with ignore_parse_error an unparsable statement is matched by no allow / deny rule; allowall, denyall and query_ignore (by its text) still decide")
	r.Finish()
}
