// C19, MySQL half: typed columns behind the real MySQL proxy (decryptor/mysql) driven by
// sess.MySession; the database end is the scripted store of verif/mycheck.
//
// Space: every configuration (declared type str/bytes/int32/int64 x failure policy none /
// ciphertext / default_value (str, bytes: also the EMPTY default) / error x envelope) x protocol
// (text = COM_QUERY, binary = prepared statement) x reader (owner alpha / other keys bravo / no
// keys) x class of the stored value of column c (envelope of alpha, envelope of bravo, damaged
// envelope, plain garbage, NULL, empty) x row shape (c alone; c after a revealed typed column d;
// c before d; two rows revealable-then-class; two rows class-then-revealable; c selected under
// a column alias; c selected through a table alias) x EOF mode
// (thorough: both). A column without client_id is opened with the keys of the CONNECTION's
// client: a value is revealable for a reader iff it is an intact envelope of that reader.
//
// Oracle (what Acra documents for MySQL, decryptor/mysql/types/*.go and type_conversion.go:
// str -> MYSQL_TYPE_STRING 0xfe, bytes -> MYSQL_TYPE_BLOB 0xfc, int32 -> MYSQL_TYPE_LONG 0x03,
// int64 -> MYSQL_TYPE_LONGLONG 0x08):
//   - revealable: the column definition announces the declared type; the value is the plaintext
//     in that type's encoding for the protocol (text: the text; binary: LONG/LONGLONG
//     little-endian, strings length-encoded);
//   - NULL stays NULL under every policy;
//   - not revealable, policy ciphertext (or none): the stored bytes as the database sent them (a
//     length-encoded string in both protocols - raw and the database's wire encoding coincide for
//     a BLOB); the column may be announced as the declared type or as the stored column's own type
//     (Acra rolls the announcement back to the stored type when it hands out ciphertext: the bytes
//     are not a value of the declared type; the PostgreSQL half accepts raw bytes under the
//     declared OID likewise) - but the rows must decode under whatever is announced;
//   - not revealable, policy default_value: declared type announced, the configured default in the
//     type's encoding (bytes: base64-decoded), the empty default included;
//   - not revealable, policy error: an ERR packet for the statement, no unrevealed value in rows
//     delivered before it, the session stays usable;
//   - an EMPTY stored value: Acra stores the empty value as it is, so it is what the application
//     wrote, for every reader: the empty string OR the policy outcome is accepted (the statement
//     does not say which) wherever an empty string fits the wire encoding - i.e. everywhere except
//     for int32/int64 in the binary protocol, where a LONG/LONGLONG is 4/8 bytes: there only the
//     policy outcome is possible (ciphertext = the empty string under the stored type);
//   - two rows, one revealable and one not, policy ciphertext, int type, binary protocol: no
//     announcement fits both a little-endian integer and raw bytes; accepted is any answer that
//     decodes under the announced type and carries the revealed value (little-endian under
//     LONG/LONGLONG is impossible for the ciphertext row, so: stored type announced, revealed value
//     as its text) - a mixture of encodings under one announcement is what the property forbids;
//   - every response decodes with the independent codec, no panic, no terminated session, and an
//     unrelated statement sent afterwards is relayed byte-identically.
package main

import (
	"bytes"
	"encoding/base64"
	"encoding/binary"
	"fmt"
	"sort"
	"strconv"
	"strings"
	"sync"

	"github.com/cossacklabs/acra/keystore/filesystem"

	"verif/ev"
	"verif/fx"
	"verif/mycheck"
	"verif/par"
	"verif/sess"
)

type myCase struct {
	Part     string  `json:"part"` // "mysql"
	Type     string  `json:"data_type"`
	Envelope string  `json:"envelope"`
	Policy   string  `json:"policy"`
	Default  *string `json:"default,omitempty"`
	Proto    string  `json:"protocol"` // text | binary
	Reader   string  `json:"reader"`   // owner | other-keys | no-keys
	Class    string  `json:"stored_value_class"`
	Shape    string  `json:"row_shape"`
	DepEOF   bool    `json:"client_deprecate_eof"`
	// Labels are the generalised key parts (type family, policy, shape) the full run gave the
	// finding this case stands for; a replay of the single case reports under the same key
	Labels *[3]string `json:"key_labels,omitempty"`
}

type myCfg struct {
	Type, Envelope, Policy string
	Default                *string
}

func (c myCfg) col() mycheck.Col { return mycheck.Typed(c.Envelope, c.Type, c.Policy, c.Default) }

// d is a second typed column of another type with no explicit policy
func (c myCfg) dType() string {
	if c.Type == "str" || c.Type == "bytes" {
		return "int32"
	}
	return "str"
}
func (c myCfg) dcol() mycheck.Col { return mycheck.Typed("acrablock", c.dType(), "", nil) }

// effective policy
func (c myCfg) policy() string {
	switch {
	case c.Policy == "" || (c.Policy == "default_value" && c.Default == nil):
		return "ciphertext" // a default policy without a default: accepted by Acra, behaves as ciphertext (as in the PostgreSQL half, not judged further)
	}
	return c.Policy
}

// "short-garbage": a stored value shorter than every configured default, so that the value the
// policy prescribes is LONGER than what the database sent (the row grows while it is rebuilt)
var myClasses = []string{"envelope-alpha", "envelope-bravo", "damaged-envelope", "garbage", "short-garbage", "null", "empty"}
var myShapes = []string{"c-alone", "c-after-d", "c-before-d", "two-rows-revealable-first", "two-rows-revealable-second", "c-aliased", "table-aliased"}
var myReaders = map[string][]byte{"owner": fx.Alpha, "other-keys": fx.Bravo, "no-keys": fx.NoKeys}

func myPlain(typ string, k int) []byte {
	switch typ {
	case "str":
		return [][]byte{[]byte("héllo wörld, it's \\ text"), []byte("second row")}[k]
	case "bytes":
		return [][]byte{{0x00, 0xff, '\'', '\\', 0x80, 'a'}, {0xfb, 0xfe, 0x00}}[k]
	case "int32":
		return [][]byte{[]byte("-2147483648"), []byte("77")}[k]
	}
	return [][]byte{[]byte("9007199254740993"), []byte("-9223372036854775808")}[k]
}

// myWire is the value of a column of the declared type as the independent codec returns it
func myWire(typ string, binaryProto bool, plain []byte) []byte {
	if !binaryProto {
		return plain
	}
	switch typ {
	case "int32":
		n, _ := strconv.ParseInt(string(plain), 10, 32)
		return binary.LittleEndian.AppendUint32(nil, uint32(int32(n)))
	case "int64":
		n, _ := strconv.ParseInt(string(plain), 10, 64)
		return binary.LittleEndian.AppendUint64(nil, uint64(n))
	}
	return plain
}

func myDefault(c myCfg) []byte {
	if c.Type == "bytes" {
		b, _ := base64.StdEncoding.DecodeString(*c.Default)
		return b
	}
	return []byte(*c.Default)
}

// myFailure is one oracle failure; the finding key is built when all cases have run, so that a
// defect that shows under every shape (or every policy) gets one key, not one per shape.
type myFailure struct {
	Family, Proto, Class, Failure, Policy, Shape string
	Msg                                          string
	Case                                         myCase
}

type myFails struct {
	mu   sync.Mutex
	list []myFailure
}

func (f *myFails) add(x myFailure) { f.mu.Lock(); f.list = append(f.list, x); f.mu.Unlock() }

const myMixed = "integer-and-ciphertext-rows-under-one-announcement"

func isIntType(typ string) bool { return typ == "int32" || typ == "int64" }

func myFamily(typ string) string {
	if isIntType(typ) {
		return "int"
	}
	return "string-like"
}

// emit turns the failures into violations. Key: C19/mysql/<type family>/<protocol>/<class of the
// stored value>/<failure>/policy=<p|any>/<shape|any-shape>: the shape is dropped when the
// simplest shape (c alone) fails the same way, the policy when all three effective policies do,
// the type family when both families do.
func (f *myFails) emit(r *ev.Run) {
	sort.SliceStable(f.list, func(i, j int) bool {
		a, b := f.list[i], f.list[j]
		ka, kb := a.Family+a.Proto+a.Class+a.Failure+a.Policy+a.Shape, b.Family+b.Proto+b.Class+b.Failure+b.Policy+b.Shape
		if ka != kb {
			return ka < kb
		}
		return fmt.Sprint(a.Case) < fmt.Sprint(b.Case)
	})
	alone := map[string]bool{}
	for _, x := range f.list {
		if x.Shape == "c-alone" {
			alone[x.Family+"|"+x.Proto+"|"+x.Class+"|"+x.Failure+"|"+x.Policy] = true
		}
	}
	shapeOf := func(x myFailure) string {
		if alone[x.Family+"|"+x.Proto+"|"+x.Class+"|"+x.Failure+"|"+x.Policy] {
			return "any-shape"
		}
		return x.Shape
	}
	pols := map[string]map[string]bool{}
	for _, x := range f.list {
		k := x.Family + "|" + x.Proto + "|" + x.Class + "|" + x.Failure + "|" + shapeOf(x)
		if pols[k] == nil {
			pols[k] = map[string]bool{}
		}
		pols[k][x.Policy] = true
	}
	polOf := func(x myFailure) string {
		if len(pols[x.Family+"|"+x.Proto+"|"+x.Class+"|"+x.Failure+"|"+shapeOf(x)]) == 3 {
			return "any"
		}
		return x.Policy
	}
	fams := map[string]map[string]bool{}
	for _, x := range f.list {
		k := x.Proto + "|" + x.Class + "|" + x.Failure + "|" + polOf(x) + "|" + shapeOf(x)
		if fams[k] == nil {
			fams[k] = map[string]bool{}
		}
		fams[k][x.Family] = true
	}
	for _, x := range f.list {
		fam := x.Family
		if len(fams[x.Proto+"|"+x.Class+"|"+x.Failure+"|"+polOf(x)+"|"+shapeOf(x)]) == 2 {
			fam = "any-type"
		}
		labels := [3]string{fam, polOf(x), shapeOf(x)}
		failure := x.Failure
		if (x.Shape == "c-aliased" || x.Shape == "table-aliased") && shapeOf(x) != "any-shape" {
			// whatever goes wrong only when the column is selected under an alias is one finding: the
			// announcement (looked up by alias) and the encoding of the value (declared type) disagree
			labels = [3]string{"any-type", "any", "alias"}
			failure = "declared-type-not-announced-under-an-alias"
			x.Proto, x.Class = "any-protocol", "any-value"
		}
		x.Failure = failure
		if x.Case.Labels != nil {
			labels = *x.Case.Labels // replay of one case of a finding
		}
		cs := x.Case
		cs.Labels = &labels
		r.Violation(fmt.Sprintf("C19/mysql/%s/%s/%s/%s/policy=%s/%s", labels[0], x.Proto, x.Class, x.Failure, labels[1], labels[2]), x.Msg, cs)
	}
}

type myWorld struct {
	fails *myFails
	r     *ev.Run
	ks    *filesystem.KeyStore
	cfg   myCfg
	env   *sess.MyEnv
	// envelopes prepared once per configuration: [owner][column c / d][value index]
	envl map[string][]byte
}

func (w *myWorld) envelope(col string, envType string, owner []byte, typ string, k int) []byte {
	key := fmt.Sprintf("%s|%s|%s|%d", col, owner, typ, k)
	if e, ok := w.envl[key]; ok {
		return e
	}
	e, err := mycheck.Envelope(w.ks, envType, owner, myPlain(typ, k))
	if err != nil {
		ev.Fatalf("C19 mysql: envelope: %v", err)
	}
	w.envl[key] = e
	return e
}

// stored returns the stored bytes of class for column c and whether reader can reveal them
func (w *myWorld) stored(class string, reader []byte, k int) (cell []byte, revealable bool) {
	c := w.cfg
	switch class {
	case "envelope-alpha":
		return w.envelope("c", c.Envelope, fx.Alpha, c.Type, k), bytes.Equal(reader, fx.Alpha)
	case "envelope-bravo":
		return w.envelope("c", c.Envelope, fx.Bravo, c.Type, k), bytes.Equal(reader, fx.Bravo)
	case "damaged-envelope":
		return mycheck.Damage(w.envelope("c", c.Envelope, fx.Alpha, c.Type, k)), false
	case "garbage":
		return []byte("plain garbage \x00\xff, not an envelope"), false
	case "short-garbage":
		return []byte("g"), false
	case "null":
		return nil, false
	case "empty":
		return []byte{}, false
	}
	ev.Fatalf("class %q", class)
	return nil, false
}

func (w *myWorld) run(cs myCase) {
	r, c := w.r, w.cfg
	reader := myReaders[cs.Reader]
	binaryProto := cs.Proto == "binary"
	viol := func(class, failure, format string, a ...interface{}) {
		shape := cs.Shape
		if failure == myMixed {
			class, shape = "unrevealable", "two-rows"
		}
		w.fails.add(myFailure{Family: myFamily(c.Type), Proto: cs.Proto, Class: class, Failure: failure, Policy: c.policy(), Shape: shape,
			Msg: fmt.Sprintf(format, a...) + fmt.Sprintf(" [config %s, reader %s, stored value %s]", c.col().Name, cs.Reader, cs.Class), Case: cs})
	}
	// coarse class of the stored value under test (finding keys)
	_, revealable := w.stored(cs.Class, reader, 0)
	coarse := map[bool]string{true: "revealable", false: "unrevealable"}[revealable]
	if cs.Class == "null" || cs.Class == "empty" {
		coarse = cs.Class
	}

	// ---- the table -------------------------------------------------------------------------------
	db := mycheck.NewDB(sess.MyTypeBlob, sess.MyTypeBlob)
	t := db.Tables["t"]
	hasKeys := !bytes.Equal(reader, fx.NoKeys)
	dCell := func(k int) []byte {
		if hasKeys {
			return w.envelope("d", "acrablock", reader, c.dType(), k)
		}
		return nil
	}
	type rowT struct {
		class string
		k     int // value index
	}
	var rows []rowT
	switch cs.Shape {
	case "two-rows-revealable-first":
		rows = []rowT{{"own", 1}, {cs.Class, 0}}
	case "two-rows-revealable-second":
		rows = []rowT{{cs.Class, 0}, {"own", 1}}
	default:
		rows = []rowT{{cs.Class, 0}}
	}
	type expT struct {
		stored     []byte
		revealable bool
		class      string
		k          int
	}
	var exp []expT
	for i, rw := range rows {
		var cell []byte
		var rev bool
		if rw.class == "own" {
			cell, rev = w.envelope("c", c.Envelope, reader, c.Type, rw.k), true
		} else {
			cell, rev = w.stored(rw.class, reader, rw.k)
		}
		t.Rows = append(t.Rows, [][]byte{[]byte(strconv.Itoa(i + 1)), []byte("p"), cell, dCell(rw.k)})
		exp = append(exp, expT{cell, rev, rw.class, rw.k})
	}
	list := map[string]string{"c-alone": "c", "c-after-d": "d, c", "c-before-d": "c, d", "c-aliased": "c", "table-aliased": "c"}[cs.Shape]
	if list == "" {
		list = "id, c"
	}
	ci := map[string]int{"c": 0, "d, c": 1, "c, d": 0, "id, c": 1}[list]
	di := map[string]int{"d, c": 0, "c, d": 1}[list]
	hasD := cs.Shape == "c-after-d" || cs.Shape == "c-before-d"
	sql := "select " + list + " from t"
	switch cs.Shape {
	case "c-aliased":
		sql = "select c as x from t"
	case "table-aliased":
		sql = "select y.c from t as y"
	}

	cl, err := mycheck.Open(w.env, reader, db, cs.DepEOF)
	if err != nil {
		ev.Fatalf("C19 mysql: session: %v", err)
	}
	defer cl.Close()
	var res *mycheck.Result
	if binaryProto {
		res, _, err = cl.PrepExec(sql, nil)
	} else {
		res, err = cl.Query(sql)
	}
	r.Transitions(cl.Transitions)
	if err != nil {
		ev.Fatalf("C19 mysql %+v: %v", cs, err)
	}
	if h := res.HarnessErr(); h != "" {
		ev.Fatalf("C19 mysql %+v: %s", cs, h)
	}
	r.Eval(1)
	r.Traces(1)
	outcome := "ok"
	bad := func(failure, format string, a ...interface{}) {
		if outcome == "ok" {
			outcome = failure
		}
		viol(coarse, failure, format, a...)
	}
	defer func() {
		r.Distinct(fmt.Sprintf("mysql|%s|%s|%s|%s|%s|%s|%s|%s|deof=%v", c.Type, c.Envelope, c.policy(), cs.Proto, cs.Reader, cs.Class, cs.Shape, outcome, cs.DepEOF))
		r.Class("mysql-"+outcome, 1)
	}()
	if res.Failure != "" {
		f := res.Failure
		if f == "malformed" {
			f = "malformed-row"
			if strings.Contains(res.Detail, "after the ERR packet") {
				f = "packets-after-the-error"
			} else if isIntType(c.Type) && binaryProto && c.policy() == "ciphertext" && strings.HasPrefix(cs.Shape, "two-rows") {
				// one row carries a little-endian integer, the other raw bytes, under one announcement
				f = myMixed
			}
		}
		bad(f, "%s", res.Detail)
		return
	}
	if len(res.Sets) != 1 {
		bad("result-count", "%d results for one SELECT", len(res.Sets))
		return
	}
	rs := res.Sets[0]
	policy := c.policy()
	declared := mycheck.DeclaredType(c.Type)
	isInt := c.Type == "int32" || c.Type == "int64"
	// an empty stored value may be handed out as it is wherever an empty string fits the wire
	// encoding of the announced type: everywhere except for integers in the binary protocol
	emptyLenient := !(isInt && binaryProto)
	anyUnrevealable := false
	for _, e := range exp {
		if !e.revealable && e.stored != nil && !(len(e.stored) == 0 && emptyLenient) {
			anyUnrevealable = true
		}
	}

	// ---- policy error --------------------------------------------------------------------------
	if rs.Err != nil || (policy == "error" && anyUnrevealable) {
		switch {
		case rs.Err == nil:
			bad("no-error", "policy error: no ERR packet was delivered (%d rows delivered)", len(rs.Rows))
		case !(policy == "error" && (anyUnrevealable || cs.Class == "empty")):
			bad("unexpected-error", "an ERR packet was delivered: %d %s", rs.Err.Code, rs.Err.Message)
		}
		// rows delivered before the error must not carry an unrevealed value
		for i, row := range rs.Rows {
			if i < len(exp) && ci < len(row) && row[ci] != nil && !exp[i].revealable && len(exp[i].stored) > 0 {
				bad("row-delivered", "policy error: a row with an unrevealed value was delivered: %.30x", row[ci])
			}
		}
	} else {
		// ---- column definitions ------------------------------------------------------------------
		if len(rs.Columns) != len(strings.Split(list, ",")) || len(rs.Rows) != len(exp) {
			bad("result-shape", "%d columns / %d rows delivered, %d / %d expected", len(rs.Columns), len(rs.Rows), len(strings.Split(list, ",")), len(exp))
			return
		}
		got := rs.Columns[ci].Type
		allowStored := false // may the column be announced as the stored column's type?
		for _, e := range exp {
			if !e.revealable && e.stored != nil && policy == "ciphertext" {
				allowStored = true
			}
		}
		if got != declared && !(allowStored && got == sess.MyTypeBlob) {
			bad("description-type", "column c is announced as type 0x%02x, the declared type %s is 0x%02x", got, c.Type, declared)
		}
		if hasD {
			if dt := mycheck.DeclaredType(c.dType()); rs.Columns[di].Type != dt {
				viol("column-d", "description-type", "the revealed column d (declared %s) is announced as type 0x%02x, expected 0x%02x", c.dType(), rs.Columns[di].Type, dt)
				outcome = "d-description-type"
			}
		}
		// ---- values ----------------------------------------------------------------------------------
		for i, e := range exp {
			v := rs.Rows[i][ci]
			var allowed [][]byte
			switch {
			case e.stored == nil:
				if v != nil {
					bad("null-changed", "row %d: NULL came back as %.30x", i, v)
				}
				continue
			case e.revealable:
				if got == declared {
					allowed = [][]byte{myWire(c.Type, binaryProto, myPlain(c.Type, e.k))}
				} else {
					// announced as the stored (BLOB) type because another row carries ciphertext: the
					// value as text (for str/bytes that is the same bytes)
					allowed = [][]byte{myPlain(c.Type, e.k)}
				}
			case len(e.stored) == 0 && emptyLenient:
				// the empty value is its own plaintext: empty, or the policy outcome
				allowed = [][]byte{{}}
				if policy == "default_value" {
					allowed = append(allowed, myWire(c.Type, binaryProto, myDefault(c)))
				}
			case policy == "default_value":
				allowed = [][]byte{myWire(c.Type, binaryProto, myDefault(c))}
			default: // ciphertext
				allowed = [][]byte{e.stored}
				if isInt && binaryProto && got == declared {
					// raw bytes cannot travel as a little-endian integer; reported by the codec as
					// malformed or here as a mixture
					allowed = nil
				}
			}
			if v == nil {
				bad("value-became-null", "row %d: a stored value came back as NULL", i)
				continue
			}
			ok := false
			for _, a := range allowed {
				ok = ok || bytes.Equal(v, a)
			}
			if ok {
				continue
			}
			plain := myPlain(c.Type, e.k)
			switch {
			case !e.revealable && len(e.stored) > 0 && (bytes.Equal(v, plain) || bytes.Equal(v, myWire(c.Type, true, plain))) && e.class != "garbage" && e.class != "short-garbage":
				bad("revealed", "row %d: the value was revealed to a reader that must not get it", i)
			case !e.revealable && bytes.Equal(v, e.stored) && policy != "ciphertext":
				bad("policy-not-applied-ciphertext-delivered", "row %d: policy %s, but the stored bytes were delivered (announced type 0x%02x)", i, policy, got)
			case !e.revealable:
				bad("policy-not-applied", "row %d: policy %s: got %.40x, allowed %.40x (announced type 0x%02x)", i, policy, v, allowed, got)
			case bytes.Equal(v, e.stored):
				bad("not-revealed", "row %d: the reader's own value was not revealed (announced type 0x%02x)", i, got)
			default:
				bad("wrong-encoding", "row %d: revealable value delivered as %.40x, expected %.40x (announced type 0x%02x)", i, v, allowed, got)
			}
		}
		if hasD {
			for i, e := range exp {
				want := myWire(c.dType(), binaryProto, myPlain(c.dType(), e.k))
				if v := rs.Rows[i][di]; !bytes.Equal(v, want) {
					viol("column-d", "value", "row %d: the revealed column d came back as %.40x, expected %.40x", i, v, want)
					outcome = "d-value"
				}
			}
		}
	}
	// ---- the session is still usable and nothing leaks into the next statement ---------------------
	follow, err := cl.Query("select note, id from u where id = 2")
	r.Transitions(1)
	if err != nil {
		ev.Fatalf("C19 mysql %+v follow-up: %v", cs, err)
	}
	switch {
	case follow.Failure != "":
		bad("follow-up-"+follow.Failure, "the statement after it: %s", follow.Detail)
	case !bytes.Equal(follow.Step.ClientRaw, follow.Step.DBSentRaw) || !bytes.Equal(follow.Step.DBRaw, follow.Step.ClientSentRaw):
		bad("follow-up-differs", "the statement after it (unconfigured table) was not relayed byte for byte")
	}
}

func myConfigs(thorough bool) []myCfg {
	s := func(x string) *string { return &x }
	envs := []string{"acrablock"}
	if thorough {
		envs = append(envs, "acrastruct")
	}
	var out []myCfg
	for _, e := range envs {
		for _, t := range []string{"str", "bytes", "int32", "int64"} {
			out = append(out, myCfg{t, e, "", nil}, myCfg{t, e, "ciphertext", nil}, myCfg{t, e, "error", nil})
			switch t {
			case "str":
				out = append(out, myCfg{t, e, "default_value", s("dflt ü")}, myCfg{t, e, "default_value", s("")})
			case "bytes":
				out = append(out, myCfg{t, e, "default_value", s("AP8nZGZsdA==")}, myCfg{t, e, "default_value", s("")})
			case "int32":
				out = append(out, myCfg{t, e, "default_value", s("-2147483648")})
			case "int64":
				out = append(out, myCfg{t, e, "default_value", s("9223372036854775807")})
			}
			if thorough {
				out = append(out, myCfg{t, e, "default_value", nil})
			}
		}
	}
	return out
}

func myCases(c myCfg, thorough bool) []myCase {
	var out []myCase
	deps := []bool{false}
	if thorough {
		deps = []bool{false, true}
	}
	for _, dep := range deps {
		for _, proto := range []string{"text", "binary"} {
			for _, rd := range []string{"owner", "other-keys", "no-keys"} {
				for _, class := range myClasses {
					for _, shape := range myShapes {
						if rd == "no-keys" && shape != "c-alone" {
							continue // nothing is revealable for a reader without keys: no revealed neighbour
						}
						out = append(out, myCase{Part: "mysql", Type: c.Type, Envelope: c.Envelope, Policy: c.Policy, Default: c.Default,
							Proto: proto, Reader: rd, Class: class, Shape: shape, DepEOF: dep})
					}
				}
			}
		}
	}
	return out
}

func myWorldFor(r *ev.Run, ks *filesystem.KeyStore, c myCfg, fails *myFails) *myWorld {
	d := c.dcol()
	yaml := mycheck.ConfigYAML(c.col(), &d)
	env, err := sess.NewMyEnv(ks, sess.MyEnvOptions{EncryptorConfigYAML: yaml})
	if err != nil {
		// every configuration of the space is one the documented rules allow
		r.Violation(fmt.Sprintf("C19/mysql/validator/%s/policy=%s/rejected", c.Type, c.Policy), fmt.Sprintf("the MySQL configuration loader rejects a configuration the documented rules allow: %v\n%s", err, yaml), myCase{Part: "mysql", Type: c.Type, Envelope: c.Envelope, Policy: c.Policy, Default: c.Default})
		return nil
	}
	w := &myWorld{fails: fails, r: r, ks: ks, cfg: c, env: env, envl: map[string][]byte{}}
	// prepare the envelopes sequentially (the cases run in parallel and only read the map)
	for _, id := range [][]byte{fx.Alpha, fx.Bravo} {
		for k := 0; k < 2; k++ {
			w.envelope("c", c.Envelope, id, c.Type, k)
			w.envelope("d", "acrablock", id, c.dType(), k)
		}
	}
	return w
}

// mysqlReplay re-executes a MySQL replay file; false when the file belongs to the PostgreSQL part.
func mysqlReplay(r *ev.Run, ks *filesystem.KeyStore) bool {
	var cs myCase
	r.LoadReplay(&cs)
	switch cs.Part {
	case "mysql":
		fails := &myFails{}
		if w := myWorldFor(r, ks, myCfg{cs.Type, cs.Envelope, cs.Policy, cs.Default}, fails); w != nil {
			w.run(cs)
		}
		fails.emit(r) // a single case: the key keeps its own policy and shape unless it is c-alone
	case "mysql-all": // developer shortcut: {"replay":{"part":"mysql-all"}} runs the MySQL half alone
		mysqlPart(r, ks, r.Thorough())
	default:
		return false
	}
	return true
}

// mysqlPart runs the MySQL half of C19. It must run after the PostgreSQL part: NewMyEnv switches
// the process-wide default SQL dialect to MySQL.
func mysqlPart(r *ev.Run, ks *filesystem.KeyStore, thorough bool) {
	cfgs := myConfigs(thorough)
	fails := &myFails{}
	total := 0
	for _, c := range cfgs {
		if r.Expired() {
			r.Capped("mysql: wall budget, not all configurations")
			break
		}
		w := myWorldFor(r, ks, c, fails)
		r.Eval(1)
		if w == nil {
			r.Class("mysql-config-rejected", 1)
			continue
		}
		cases := myCases(c, thorough)
		done := par.Do(len(cases), r.Expired, func(i int) { w.run(cases[i]) })
		if done < len(cases) {
			r.Capped(fmt.Sprintf("mysql: configuration %s: %d of %d cases", c.col().Name, done, len(cases)))
		}
		total += len(cases)
		if c.Type == "int32" && c.Policy == "default_value" {
			r.Sample(cases[len(cases)/2])
		}
	}
	fails.emit(r)
	r.States(total)
	r.Set("mysql_configurations", len(cfgs))
	r.Set("mysql_cases", total)
	r.Set("mysql_rule", "state = (typed-column configuration, protocol, reader, class of the stored value, row shape, EOF mode); each is one fresh session through the real MySQL proxy against a scripted table holding values of the chosen class (envelopes made with Acra's own producers), one SELECT (text: COM_QUERY, binary: COM_STMT_PREPARE/EXECUTE/CLOSE) and one follow-up statement; distinct_nontrivial = distinct (type, policy, protocol, reader, class, shape, outcome)")
	r.Assume("MySQL: scripted database verif/mycheck (own statement reader, no SQL engine); independent codec verif/sess/mycodec.go",
		"MySQL: policy 'ciphertext' is read as: the stored bytes as the database sent them, announced as the declared type or as the stored column's type",
		"MySQL: plain (non-envelope) stored values that happen to be valid literals of the declared type are outside the space")
}
