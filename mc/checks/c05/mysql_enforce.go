package main

// MySQL enforcement phase of C05 (engine E5 + E2): the same question as enforce.go, asked of the
// real MySQL proxy. Sessions over the proxy with a firewall configuration loaded through the real
// loader; every sequence up to a depth bound of {accepted, rejected} statements - COM_QUERY and
// COM_STMT_PREPARE / COM_STMT_EXECUTE - on a table with a consistently tokenized column (so that
// a statement processed "according to another statement" is visible in its result) is executed
// lock-step against a scripted database (verif/mycheck). Oracles: a rejected statement never
// reaches the database end (neither whole nor a fragment), the client gets an ERR packet and the
// session goes on; every accepted statement is answered exactly as a plaintext reference store
// answers it.

import (
	"bytes"
	"errors"
	"fmt"
	"os"
	"strings"

	"verif/detrand"
	"verif/ev"
	"verif/fx"
	"verif/mycheck"
	"verif/par"
	"verif/sess"
)

type mystmt struct {
	Kind     string
	SQL      string
	Prepared bool
	Params   []sess.MyParam
	Rejected map[string]bool // per firewall config name: must be rejected
	Marker   string          // a text that must never reach the database when the statement is rejected
	// Pipelined: the statement is written in one go behind a COM_CHANGE_USER command
	Pipelined bool
}

func myEnforceAlphabet() []mystmt {
	all := map[string]bool{"deny-query": true, "deny-table": true, "deny-pattern": true, "allow-then-denyall": true}
	selDenied := map[string]bool{"deny-query": true, "deny-pattern": true}
	secretsDenied := map[string]bool{"deny-table": true, "deny-pattern": true, "allow-then-denyall": true}
	return []mystmt{
		{Kind: "ok-insert", SQL: "insert into t (id, plain, c) values (1, 'p1', 'tokenvalue')"},
		{Kind: "ok-select-text", SQL: "select id, plain, c from t"},
		{Kind: "ok-ps-select-binary", SQL: "select c, plain, id from t where id = ?", Prepared: true, Params: []sess.MyParam{mycheck.LongParam(1)}},
		{Kind: "ok-ps-insert", SQL: "insert into t (id, plain, c) values (?, ?, ?)", Prepared: true, Params: []sess.MyParam{mycheck.LongParam(2), mycheck.StrParam("p2"), mycheck.StrParam("second")}},
		{Kind: "rej-query-insert-secrets", SQL: "insert into secrets (id, v) values (1, 'x')", Rejected: all, Marker: "secrets"},
		{Kind: "rej-query-select-secrets", SQL: "select v from secrets", Rejected: secretsDenied, Marker: "secrets"},
		{Kind: "rej-query-select-t-666", SQL: "select tok, typed, id from t where id = 666", Rejected: selDenied, Marker: "666"},
		{Kind: "rej-query-select-t-666-spelling", SQL: "/* x */ SELECT tok,  typed, id\nFROM t WHERE id = 666;", Rejected: selDenied, Marker: "666"},
		{Kind: "rej-ps-select-secrets", SQL: "select v from secrets where id = ?", Prepared: true, Params: []sess.MyParam{mycheck.LongParam(9)}, Rejected: map[string]bool{"deny-table": true, "allow-then-denyall": true}, Marker: "secrets"},
		{Kind: "rej-query-unparsable", SQL: "selec tok frm t 777", Rejected: all, Marker: "777"},
		// stacked statements: one COM_QUERY with an admitted and a denied statement, in both orders (a
		// connection with multi-statements executes all of them; the proxy forwards a packet as a whole)
		{Kind: "rej-query-stacked-select-then-insert-secrets", SQL: "select id, plain, c from t; insert into secrets (id, v) values (1, 'x')", Rejected: all, Marker: "secrets"},
		{Kind: "rej-query-stacked-insert-secrets-then-select", SQL: "insert into secrets (id, v) values (1, 'x'); select id, plain, c from t", Rejected: all, Marker: "secrets"},
		// a denied statement written right behind a command that starts another exchange with the
		// database (COM_CHANGE_USER), before the database has answered that command
		{Kind: "rej-query-pipelined-after-change-user", SQL: "select v from secrets", Rejected: secretsDenied, Marker: "secrets", Pipelined: true},
	}
}

type myEnforceReplay struct {
	Phase    string   `json:"phase"` // "mysql-enforce"
	Firewall string   `json:"firewall"`
	Session  []string `json:"session"`
}

var myEnforceCol = mycheck.Tokenized("str", true)

func newMyEnforceDB() *mycheck.DB {
	db := mycheck.NewDB(sess.MyTypeVarString, 0)
	db.Tables["secrets"] = &mycheck.Table{Name: "secrets", Cols: []mycheck.Column{{Name: "id", Type: sess.MyTypeLong}, {Name: "v", Type: sess.MyTypeVarString}},
		Rows: [][][]byte{{[]byte("9"), []byte("top-secret-row")}}}
	return db
}

func runMyEnforceSession(r *ev.Run, env *sess.MyEnv, fw fwConfig, seq []mystmt) (viol [][2]string, harness string) {
	prot, shadow := newMyEnforceDB(), newMyEnforceDB()
	add := func(key, format string, a ...interface{}) {
		viol = append(viol, [2]string{"C05/mysql-enforce/" + fw.Name + "/" + key, fmt.Sprintf(format, a...)})
	}
	c, err := mycheck.Open(env, fx.Alpha, prot, false)
	if err != nil {
		return nil, err.Error()
	}
	defer c.Close()
	rejectedBefore := ""
	for _, st := range seq {
		ctx := "after-accepted"
		if rejectedBefore != "" {
			ctx = "after-" + rejectedBefore
		}
		logBefore := len(prot.Log)
		var res, prep *mycheck.Result
		var err error
		if st.Pipelined {
			v, h := runPipelined(r, c, fw, st, ctx)
			viol = append(viol, v...)
			if h != "" || len(v) > 0 {
				return viol, h
			}
			continue
		}
		if st.Prepared {
			res, prep, err = c.PrepExec(st.SQL, st.Params)
		} else {
			res, err = c.Query(st.SQL)
		}
		r.Transitions(1)
		if err != nil {
			return viol, fmt.Sprintf("%s: %v", st.Kind, err)
		}
		if res.Failure != "" {
			add(st.Kind+"/"+ctx+"/"+res.Failure, "%s (%s): %s", st.Kind, ctx, res.Detail)
			return
		}
		if st.Rejected[fw.Name] {
			// nothing of the statement may have reached the database end
			if len(prot.Log) > logBefore {
				s := prot.Log[logBefore]
				add(st.Kind+"/forwarded", "a command of a rejected statement reached the database: command 0x%02x %.80q", s.Cmd, s.SQL+s.ExecOf)
			}
			var dbBytes []byte
			for _, x := range []*mycheck.Result{prep, res} {
				if x != nil && x.Step != nil {
					for _, p := range x.Step.DB {
						dbBytes = append(dbBytes, p.Payload...)
					}
				}
			}
			if st.Marker != "" && bytes.Contains(dbBytes, []byte(st.Marker)) {
				add(st.Kind+"/fragment-forwarded", "a fragment of a rejected statement reached the database")
			}
			gotErr, gotRows := false, false
			if st.Prepared && res.Prep != nil {
				gotErr = res.Prep.Err != nil
			}
			for _, s := range res.Sets {
				if s.Err != nil {
					gotErr = true
				}
				if len(s.Rows) > 0 {
					gotRows = true
				}
			}
			if gotRows {
				add(st.Kind+"/rows-delivered", "rows were delivered for a rejected statement")
			}
			if !gotErr {
				add(st.Kind+"/no-error", "the client got no error packet for a rejected statement")
			}
			rejectedBefore = "rejected-query"
			if st.Prepared {
				rejectedBefore = "rejected-prepare"
			}
			continue
		}
		if h := res.HarnessErr(); h != "" {
			return viol, fmt.Sprintf("%s: scripted database: %s", st.Kind, h)
		}
		op := mycheck.Op{Kind: st.Kind, SQL: st.SQL, Prepared: st.Prepared, Params: st.Params}
		want, werr := mycheck.Direct(shadow, op)
		if werr != nil {
			return viol, fmt.Sprintf("%s: reference store: %v", st.Kind, werr)
		}
		if d := mycheck.DiffSets(res.Sets, want, st.Prepared, false); d != "" {
			add(st.Kind+"/"+ctx+"/result-differs", "accepted statement %q is not answered according to itself (%s): %s", st.Kind, ctx, d)
		}
	}
	return
}

func mysqlEnforcementPhase(r *ev.Run) {
	detrand.Install(detrand.New("c05-mysql-enforce"))
	dir := fx.Scratch("c05my")
	defer os.RemoveAll(dir)
	ks := fx.NewKeyStoreV1(dir, -1)
	fx.GenClientKeys(ks, fx.Alpha)
	depth := 3
	if r.Thorough() {
		depth = 4
	}
	alphabet := myEnforceAlphabet()
	byKind := map[string]mystmt{}
	for _, a := range alphabet {
		byKind[a.Kind] = a
	}
	schema := mycheck.ConfigYAML(myEnforceCol, nil)
	mkEnv := func(fw fwConfig) *sess.MyEnv {
		env, err := sess.NewMyEnv(ks, sess.MyEnvOptions{EncryptorConfigYAML: schema, CensorConfigYAML: fw.YAML})
		if err != nil {
			ev.Fatalf("mysql enforcement env %s: %v", fw.Name, err)
		}
		return env
	}
	if r.Replay != "" {
		var rp myEnforceReplay
		r.LoadReplay(&rp)
		for _, fw := range fwConfigs {
			if fw.Name != rp.Firewall {
				continue
			}
			var seq []mystmt
			for _, k := range rp.Session {
				seq = append(seq, byKind[k])
			}
			viol, harness := runMyEnforceSession(r, mkEnv(fw), fw, seq)
			fmt.Println("harness:", harness)
			for _, v := range viol {
				fmt.Println("replayed:", v[0], "::", v[1])
				r.Violation(v[0], v[1], rp)
			}
		}
		return
	}
	sessions := 0
	for _, fw := range fwConfigs {
		env := mkEnv(fw)
		var seqs [][]string
		var rec func(cur []string)
		rec = func(cur []string) {
			seqs = append(seqs, append([]string{}, cur...))
			if len(cur) == depth {
				return
			}
			for _, a := range alphabet {
				rec(append(cur, a.Kind))
			}
		}
		rec([]string{"ok-insert"})
		type outT struct {
			viol    [][2]string
			harness string
		}
		outs := make([]outT, len(seqs))
		done := par.Do(len(seqs), r.Expired, func(i int) {
			var seq []mystmt
			for _, k := range seqs[i] {
				seq = append(seq, byKind[k])
			}
			v, h := runMyEnforceSession(r, env, fw, seq)
			outs[i] = outT{v, h}
		})
		if done < len(seqs) {
			r.Capped(fmt.Sprintf("mysql enforcement %s: %d of %d sessions", fw.Name, done, len(seqs)))
		}
		for i := 0; i < done; i++ {
			if outs[i].harness != "" {
				ev.Fatalf("mysql enforcement %s %v: %s", fw.Name, seqs[i], outs[i].harness)
			}
			r.Eval(1)
			r.Traces(1)
			for _, v := range outs[i].viol {
				r.Violation(v[0], v[1], myEnforceReplay{Phase: "mysql-enforce", Firewall: fw.Name, Session: seqs[i]})
			}
			r.Distinct(fmt.Sprintf("mysql-enforce|%s|%s|%v", fw.Name, strings.Join(seqs[i], ">"), len(outs[i].viol) > 0))
		}
		sessions += done
		r.Sample(myEnforceReplay{Phase: "mysql-enforce", Firewall: fw.Name, Session: seqs[len(seqs)/2]})
	}
	r.States(sessions)
	r.Set("mysql_enforcement_sessions", sessions)
	r.Set("mysql_enforcement_depth", depth)
	var kinds []string
	for _, a := range alphabet {
		kinds = append(kinds, a.Kind)
	}
	r.Set("mysql_enforcement_alphabet", kinds)
}

// runPipelined writes COM_CHANGE_USER and the statement in one go. The scripted database answers
// every command that reaches it with OK (it must never see the statement when it is rejected).
func runPipelined(r *ev.Run, c *mycheck.Client, fw fwConfig, st mystmt, ctx string) (viol [][2]string, harness string) {
	add := func(key, format string, a ...interface{}) {
		viol = append(viol, [2]string{"C05/mysql-enforce/" + fw.Name + "/" + key, fmt.Sprintf(format, a...)})
	}
	changeUser := append([]byte{0x11}, []byte("app\x00\x00appdb\x00")...)
	ok := (&sess.MyOK{Status: sess.MyStatusAutocommit}).Encode()
	var atDB [][]byte
	res, err := c.S.Step([]sess.MyPacket{{Seq: 0, Payload: changeUser}, {Seq: 0, Payload: sess.MyQuery(st.SQL)}}, func(received []sess.MyPacket) []sess.MyPacket {
		var out []sess.MyPacket
		for _, p := range received {
			atDB = append(atDB, p.Payload)
			out = append(out, sess.MyPacket{Seq: 1, Payload: ok})
		}
		return out
	})
	r.Transitions(1)
	if errors.Is(err, sess.ErrMalformed) {
		add(st.Kind+"/"+ctx+"/malformed", "%v", err)
		return
	}
	if err != nil {
		return nil, fmt.Sprintf("%s: %v", st.Kind, err)
	}
	if p := c.S.PanicList(); len(p) > 0 {
		add(st.Kind+"/"+ctx+"/panic", "proxy goroutine panicked: %v", p)
		return
	}
	if !st.Rejected[fw.Name] {
		return // an allowed statement may be forwarded: nothing to judge here
	}
	for _, p := range atDB {
		if len(p) > 0 && p[0] == sess.MyComQuery {
			add(st.Kind+"/forwarded", "a rejected statement written behind COM_CHANGE_USER reached the database: %.80q", p[1:])
			break
		}
		if st.Marker != "" && len(p) > 0 && p[0] != 0x11 && bytes.Contains(p, []byte(st.Marker)) {
			add(st.Kind+"/fragment-forwarded", "a fragment of a rejected statement reached the database")
			break
		}
	}
	gotErr := false
	for _, p := range res.Client {
		if len(p.Payload) > 0 && p.Payload[0] == 0xff {
			gotErr = true
		}
	}
	if !gotErr {
		add(st.Kind+"/no-error", "the client got no error packet for a rejected statement written behind COM_CHANGE_USER")
	}
	return
}
