package main

import (
	"fmt"

	"github.com/jackc/pgx/v5/pgproto3"

	"verif/detrand"
	"verif/fx"
	"verif/sess"
)

const cfg = `
schemas:
  - table: t
    columns: [id, plain, c]
    encrypted:
      - column: c
        crypto_envelope: acrablock
`

func main() {
	fx.Quiet()
	detrand.Install(detrand.New("smoke"))
	dir := fx.Scratch("smoke")
	ks := fx.NewKeyStoreV1(dir, -1)
	fx.GenClientKeys(ks, fx.Alpha)
	env, err := sess.NewPGEnv(ks, sess.PGEnvOptions{EncryptorConfigYAML: cfg})
	if err != nil {
		panic(err)
	}
	db := sess.NewPGDB()
	db.AddTable("t", sess.PGColumn{"id", sess.OIDInt4}, sess.PGColumn{"plain", sess.OIDText}, sess.PGColumn{"c", sess.OIDBytea})
	s, err := sess.NewPGSession(env, fx.Alpha, nil)
	if err != nil {
		panic(err)
	}
	if err := s.Startup(); err != nil {
		panic(err)
	}
	for _, q := range []string{"insert into t (id, plain, c) values (1, 'p', 'secret-value')", "select id, plain, c from t where id = 1", "select * from t"} {
		r, err := s.Step([]pgproto3.FrontendMessage{&pgproto3.Query{String: q}}, db.Respond)
		fmt.Println("Q:", q, "err", err, "term", r.Terminated)
		for _, m := range r.DB {
			fmt.Printf("  db<- %T %.120q\n", m.F, m.Raw)
		}
		for _, m := range r.Client {
			fmt.Printf("  cl<- %T %.120q\n", m.B, m.Raw)
		}
	}
	r, err := s.Step([]pgproto3.FrontendMessage{
		&pgproto3.Parse{Name: "s1", Query: "insert into t (id, plain, c) values ($1, $2, $3)"},
		&pgproto3.Bind{PreparedStatement: "s1", Parameters: [][]byte{[]byte("2"), []byte("q"), []byte("bound-secret")}},
		&pgproto3.Execute{}, &pgproto3.Sync{}}, db.Respond)
	fmt.Println(err, r.Terminated)
	for _, m := range r.DB {
		fmt.Printf("  db<- %T %.100q\n", m.F, m.Raw)
	}
	for _, m := range r.Client {
		fmt.Printf("  cl<- %T %.100q\n", m.B, m.Raw)
	}
	r, _ = s.Step([]pgproto3.FrontendMessage{
		&pgproto3.Parse{Name: "s2", Query: "select c from t where id = $1"},
		&pgproto3.Bind{PreparedStatement: "s2", Parameters: [][]byte{[]byte("2")}, ResultFormatCodes: []int16{1}},
		&pgproto3.Describe{ObjectType: 'P'},
		&pgproto3.Execute{}, &pgproto3.Sync{}}, db.Respond)
	for _, m := range r.Client {
		fmt.Printf("  cl<- %T %.100q\n", m.B, m.Raw)
	}
	fmt.Println(s.Panics, s.ProxyErrors)
	s.Close()
}
