// C17 — concurrent keystore writers never lose each other's updates; concurrent use of one
// v1 keystore handle always returns complete, correct keys.
//
// Engine E1: the real keystore code runs under a cooperative scheduler. Scheduling points:
// every call of the v2 back-end interface (Lock/Unlock/RLock/RUnlock/Get/Put/Rename/RenameNX/
// ListAll), for v1 every lock operation of the keystore and of its LRU cache (through the
// build overlay that swaps "sync" for a scheduler-aware shim in those files only), every
// storage call and every operation on the groupcache LRU list. A stateless depth-first search
// explores every interleaving with at most B preemptions (B = 0,1,2 quick; 3 thorough) and on
// every execution checks: no deadlock / livelock / panic, the lockset access monitor (no
// conflicting unsynchronised accesses), and the scenario oracle on the final state read through
// a fresh handle and on every result a thread obtained.
//
// In those v2 scenarios the store lock is the scheduler's reader/writer lock over the in-memory
// back end. The REAL lock of the directory back end (flock on <root>/.lock + in-process mutex) is
// covered by dirlock.go: (L) every history up to a depth of open / close / lock / unlock / rlock /
// runlock over three handles of one real key directory, oracle = the flock contract between every
// pair of live handles after every sequence of opens and closes; (W) two writers on the real key
// store over the real directory back end under the scheduler, for every order of opening the
// writers' handles and opening + closing a third handle before, or while, they run.
package main

import (
	"bytes"
	"crypto/rand"
	"fmt"
	"os"
	"os/exec"
	"sort"
	"strconv"
	"strings"
	"time"

	"github.com/golang/groupcache/lru"

	"github.com/cossacklabs/acra/keystore"
	"github.com/cossacklabs/acra/keystore/filesystem"
	keystoreV2 "github.com/cossacklabs/acra/keystore/v2/keystore"
	apiV2 "github.com/cossacklabs/acra/keystore/v2/keystore/api"
	cryptoV2 "github.com/cossacklabs/acra/keystore/v2/keystore/crypto"
	filesystemV2 "github.com/cossacklabs/acra/keystore/v2/keystore/filesystem"
	backendV2 "github.com/cossacklabs/acra/keystore/v2/keystore/filesystem/backend"
	"github.com/cossacklabs/acra/verifsync"

	"verif/detrand"
	"verif/ev"
	"verif/fx"
	"verif/sched"
)

// ---- glue: overlay hooks -> scheduler ------------------------------------------------------

var locks = map[interface{}]*sched.Lock{} // per execution (reset by newExecution)

func newExecution() { locks = map[interface{}]*sched.Lock{} }

func lockFor(key interface{}, kind string) *sched.Lock {
	l, ok := locks[key]
	if !ok {
		l = &sched.Lock{Name: fmt.Sprintf("%s#%d", kind, len(locks))}
		locks[key] = l
	}
	return l
}

func installHooks() {
	verifsync.AcquireHook = func(key interface{}, kind string, excl bool) bool {
		s := sched.Active()
		if s == nil || s.CurrentThread() < 0 {
			return false
		}
		s.Acquire(lockFor(key, kind), excl)
		return true
	}
	verifsync.ReleaseHook = func(key interface{}, kind string, excl bool) bool {
		s := sched.Active()
		if s == nil || s.CurrentThread() < 0 {
			return false
		}
		s.Release(lockFor(key, kind), excl)
		return true
	}
	lru.Hook = func(c *lru.Cache, op string, write bool) {
		if s := sched.Active(); s != nil && s.CurrentThread() >= 0 {
			s.Access("lru-list", write, op)
		}
	}
}

// ---- v2: scheduler-aware back end ---------------------------------------------------------

type sbackend struct {
	inner  *backendV2.InMemory
	lock   sched.Lock
	writes []string // "T<id> Rename <path>" in commit order
	// fault injection: fail the k-th data call (1-based) of thread failThread; 0 = none
	failThread, failAt int
	calls              map[int]int
}

func newSBackend() *sbackend {
	return &sbackend{inner: backendV2.NewInMemory(), lock: sched.Lock{Name: "backend"}, calls: map[int]int{}}
}

func active() *sched.Scheduler {
	if s := sched.Active(); s != nil && s.CurrentThread() >= 0 {
		return s
	}
	return nil
}

func (b *sbackend) Lock() error {
	if s := active(); s != nil {
		s.Acquire(&b.lock, true)
	}
	return nil
}
func (b *sbackend) Unlock() error {
	if s := active(); s != nil {
		s.Release(&b.lock, true)
	}
	return nil
}
func (b *sbackend) RLock() error {
	if s := active(); s != nil {
		s.Acquire(&b.lock, false)
	}
	return nil
}
func (b *sbackend) RUnlock() error {
	if s := active(); s != nil {
		s.Release(&b.lock, false)
	}
	return nil
}
func (b *sbackend) Close() error { return nil }

var errInjected = fmt.Errorf("injected back-end failure")

func (b *sbackend) point(op, path string, write bool) error {
	s := active()
	if s == nil {
		return nil
	}
	s.Point(op + " " + path)
	s.Access("storage", write, op)
	t := s.CurrentThread()
	b.calls[t]++
	if b.failThread == t+1 && b.failAt == b.calls[t] {
		return errInjected
	}
	return nil
}

func (b *sbackend) Get(path string) ([]byte, error) {
	if err := b.point("Get", path, false); err != nil {
		return nil, err
	}
	d, err := b.inner.Get(path)
	if err == nil {
		d = append([]byte(nil), d...)
	}
	return d, err
}
func (b *sbackend) Put(path string, data []byte) error {
	if err := b.point("Put", path, true); err != nil {
		return err
	}
	return b.inner.Put(path, append([]byte(nil), data...))
}
func (b *sbackend) ListAll() ([]string, error) {
	if err := b.point("ListAll", "", false); err != nil {
		return nil, err
	}
	return b.inner.ListAll()
}
func (b *sbackend) Rename(o, n string) error {
	if err := b.point("Rename", n, true); err != nil {
		return err
	}
	err := b.inner.Rename(o, n)
	if err == nil {
		if s := active(); s != nil {
			b.writes = append(b.writes, fmt.Sprintf("T%d %s", s.CurrentThread(), n))
		}
	}
	return err
}
func (b *sbackend) RenameNX(o, n string) error {
	if err := b.point("RenameNX", n, true); err != nil {
		return err
	}
	return b.inner.RenameNX(o, n)
}

var (
	encKey = bytes.Repeat([]byte{0x11}, 32)
	sigKey = bytes.Repeat([]byte{0x22}, 32)
)

func v2Handle(b backendV2.Backend) (*keystoreV2.ServerKeyStore, apiV2.MutableKeyStore) {
	suite, err := cryptoV2.NewSCellSuite(append([]byte{}, encKey...), append([]byte{}, sigKey...))
	if err != nil {
		ev.Fatalf("suite: %v", err)
	}
	ks, err := filesystemV2.CustomKeyStore(b, suite)
	if err != nil {
		ev.Fatalf("keystore: %v", err)
	}
	return keystoreV2.NewServerKeyStore(ks), ks
}

// drawLog records the 32-byte draws of each thread (the symmetric keys they generate).
type drawLog struct {
	byThread map[int][][]byte
}

// ---- v2 scenarios -------------------------------------------------------------------------

type v2op struct {
	Name string
	Run  func(h *keystoreV2.ServerKeyStore) (interface{}, error)
}

var (
	idA = []byte("alpha_1")
	idB = []byte("bravo_2")
)

func opGenerate(id []byte) v2op {
	return v2op{"generate(" + string(id) + ")", func(h *keystoreV2.ServerKeyStore) (interface{}, error) {
		return nil, h.GenerateClientIDSymmetricKey(id)
	}}
}
func opDestroyCurrent(id []byte) v2op {
	return v2op{"destroy-current(" + string(id) + ")", func(h *keystoreV2.ServerKeyStore) (interface{}, error) {
		return nil, h.DestroyClientIDSymmetricKey(id)
	}}
}
func opDestroyRotated(id []byte, idx int) v2op {
	return v2op{fmt.Sprintf("destroy-rotated(%s,%d)", id, idx), func(h *keystoreV2.ServerKeyStore) (interface{}, error) {
		return nil, h.DestroyRotatedClientIDSymmetricKey(id, idx)
	}}
}
func opReadAll(id []byte) v2op {
	return v2op{"read-all(" + string(id) + ")", func(h *keystoreV2.ServerKeyStore) (interface{}, error) {
		return h.GetClientIDSymmetricKeys(id)
	}}
}
func opReadCurrent(id []byte) v2op {
	return v2op{"read-current(" + string(id) + ")", func(h *keystoreV2.ServerKeyStore) (interface{}, error) {
		return h.GetClientIDSymmetricKey(id)
	}}
}

type v2scenario struct {
	Name    string
	Preseed map[string]int // client -> number of keys generated before the threads start
	Threads [][]v2op
	Fault   bool // additionally fail each back-end data call of thread 0 in turn
}

func v2scenarios(thorough bool) []v2scenario {
	sc := []v2scenario{
		{Name: "W2-add-add", Preseed: map[string]int{"alpha_1": 1}, Threads: [][]v2op{{opGenerate(idA)}, {opGenerate(idA)}}},
		{Name: "W2-add-add-empty", Preseed: map[string]int{}, Threads: [][]v2op{{opGenerate(idA)}, {opGenerate(idA)}}},
		{Name: "W2-add-destroy", Preseed: map[string]int{"alpha_1": 2}, Threads: [][]v2op{{opGenerate(idA)}, {opDestroyCurrent(idA)}}},
		{Name: "W2-destroy-destroy", Preseed: map[string]int{"alpha_1": 3}, Threads: [][]v2op{{opDestroyRotated(idA, 2)}, {opDestroyRotated(idA, 2)}}},
		{Name: "W2-two-rings", Preseed: map[string]int{"alpha_1": 1, "bravo_2": 1}, Threads: [][]v2op{{opGenerate(idA)}, {opGenerate(idB)}}},
		{Name: "W3-add-add-read", Preseed: map[string]int{"alpha_1": 1}, Threads: [][]v2op{{opGenerate(idA)}, {opGenerate(idA)}, {opReadAll(idA), opReadCurrent(idA)}}},
		{Name: "R2-read-read", Preseed: map[string]int{"alpha_1": 2}, Threads: [][]v2op{{opReadAll(idA)}, {opReadAll(idA)}}},
		// one writer adds twice while the other still works from the ring it opened before
		{Name: "W2-addadd-add", Preseed: map[string]int{"alpha_1": 1}, Threads: [][]v2op{{opGenerate(idA), opGenerate(idA)}, {opGenerate(idA)}}},
		{Name: "W2-add-add-fault", Preseed: map[string]int{"alpha_1": 1}, Threads: [][]v2op{{opGenerate(idA), opReadAll(idA)}, {opGenerate(idA)}}, Fault: true},
	}
	if thorough {
		sc = append(sc,
			v2scenario{Name: "W3-add-add-add", Preseed: map[string]int{"alpha_1": 1}, Threads: [][]v2op{{opGenerate(idA)}, {opGenerate(idA)}, {opGenerate(idA)}}},
			v2scenario{Name: "W3-add-destroy-read", Preseed: map[string]int{"alpha_1": 2}, Threads: [][]v2op{{opGenerate(idA)}, {opDestroyRotated(idA, 2)}, {opReadCurrent(idA)}}},
		)
	}
	return sc
}

type opResult struct {
	Op   string
	Val  interface{}
	Err  error
	Keys [][]byte // 32-byte draws made during the op (generated key material)
}

type ringKey struct {
	Seq       int
	Value     []byte // nil when destroyed
	Destroyed bool
}

// readRing reads the final state of client id's storage-sym ring through a fresh handle.
func readRing(b backendV2.Backend, id []byte) (keys []ringKey, current int, err error) {
	_, mks := v2Handle(b)
	ring, err := mks.OpenKeyRing("client/" + string(id) + "/storage-sym")
	if err != nil {
		return nil, 0, err
	}
	seqs, err := ring.AllKeys()
	if err != nil {
		return nil, 0, err
	}
	current, cerr := ring.CurrentKey()
	if cerr != nil {
		current = 0
	}
	for _, sq := range seqs {
		st, err := ring.State(sq)
		if err != nil {
			return nil, 0, err
		}
		k := ringKey{Seq: sq, Destroyed: st == apiV2.KeyDestroyed}
		if !k.Destroyed {
			k.Value, err = ring.SymmetricKey(sq, apiV2.ThemisSymmetricKeyFormat)
			if err != nil {
				return nil, 0, fmt.Errorf("key %d unreadable: %v", sq, err)
			}
		}
		keys = append(keys, k)
	}
	return keys, current, nil
}

func (sc v2scenario) build(failAt int) sched.Scenario {
	return func(s *sched.Scheduler) func(x *sched.Execution) []string {
		newExecution()
		rnd := detrand.New("c17/" + sc.Name)
		detrand.Install(rnd)
		b := newSBackend()
		setup, _ := v2Handle(b)
		preKeys := map[string][][]byte{}
		var clients []string
		for c := range sc.Preseed {
			clients = append(clients, c)
		}
		sort.Strings(clients)
		for _, c := range clients {
			for i := 0; i < sc.Preseed[c]; i++ {
				if err := setup.GenerateClientIDSymmetricKey([]byte(c)); err != nil {
					ev.Fatalf("preseed: %v", err)
				}
				k, err := setup.GetClientIDSymmetricKey([]byte(c))
				if err != nil {
					ev.Fatalf("preseed read: %v", err)
				}
				preKeys[c] = append(preKeys[c], k)
			}
		}
		if failAt > 0 {
			b.failThread, b.failAt = 1, failAt
		}
		results := make([][]opResult, len(sc.Threads))
		curDraws := map[int]*[][]byte{}
		rnd.Log = func(p []byte) {
			if sch := active(); sch != nil && len(p) == 32 {
				if d := curDraws[sch.CurrentThread()]; d != nil {
					*d = append(*d, p)
				}
			}
		}
		for ti, ops := range sc.Threads {
			ti, ops := ti, ops
			h, _ := v2Handle(b)
			s.Go(fmt.Sprintf("H%d", ti+1), func() {
				for _, op := range ops {
					var draws [][]byte
					curDraws[ti] = &draws // draws are attributed to the running thread
					v, err := op.Run(h)
					curDraws[ti] = nil
					results[ti] = append(results[ti], opResult{Op: op.Name, Val: v, Err: err, Keys: draws})
				}
			})
		}
		return func(x *sched.Execution) []string {
			rnd.Log = nil
			var fails []string
			failf := func(format string, a ...interface{}) { fails = append(fails, fmt.Sprintf(format, a...)) }
			for _, c := range []string{"alpha_1", "bravo_2"} {
				if _, used := sc.Preseed[c]; !used && c != "alpha_1" {
					continue
				}
				keys, current, err := readRing(b, []byte(c))
				if err != nil {
					if len(preKeys[c]) == 0 && !anySuccess(results, "generate("+c+")") {
						continue // ring legitimately absent
					}
					failf("final key ring of %s cannot be read through a fresh handle: %v", c, err)
					continue
				}
				// sequence numbers unique; AllKeys lists newest first, so strictly decreasing
				for i := 1; i < len(keys); i++ {
					if keys[i].Seq >= keys[i-1].Seq {
						failf("sequence numbers not unique / not ordered newest-first: %d listed after %d", keys[i].Seq, keys[i-1].Seq)
					}
				}
				live := map[string]int{}
				for _, k := range keys {
					if !k.Destroyed {
						live[string(k.Value)]++
					}
				}
				for v, n := range live {
					if n > 1 {
						failf("key %x… present %d times in the final ring", v[:4], n)
					}
				}
				// every successful generate is reflected exactly once; the last committed successful
				// generate is current
				var successKeys [][]byte
				var genOK []string
				destroyedCurrent := false
				nDestroyOK := 0
				for ti, rs := range results {
					for _, r := range rs {
						if r.Op == "generate("+c+")" {
							if r.Err == nil {
								if len(r.Keys) == 0 {
									ev.Fatalf("no draw recorded for a successful generate")
								}
								k := r.Keys[0]
								genOK = append(genOK, fmt.Sprintf("H%d", ti+1))
								successKeys = append(successKeys, k)
							}
						}
						if strings.HasPrefix(r.Op, "destroy-") && strings.Contains(r.Op, c) && r.Err == nil {
							nDestroyOK++
							if strings.HasPrefix(r.Op, "destroy-current") {
								destroyedCurrent = true
							}
						}
					}
				}
				nDestroyed := 0
				for _, k := range keys {
					if k.Destroyed {
						nDestroyed++
					}
				}
				// a successfully generated key is in the final ring exactly once, unless a successful
				// destroy may have hit it (destroyed keys keep only their sequence number)
				missing := 0
				for i, k := range successKeys {
					switch live[string(k)] {
					case 1:
					case 0:
						missing++
						if missing > nDestroyOK {
							failf("%s: generate reported success but its key is not in the final ring", genOK[i])
						}
					default:
						failf("%s: generated key present %d times in the final ring", genOK[i], live[string(k)])
					}
				}
				if nDestroyed != nDestroyOK {
					failf("%d destroy operations reported success but %d keys are destroyed in the final ring", nDestroyOK, nDestroyed)
				}
				// pre-seeded keys that nobody destroyed successfully are still there
				if nDestroyOK == 0 {
					for i, k := range preKeys[c] {
						if live[string(k)] != 1 {
							failf("pre-existing key #%d of %s lost although no destroy succeeded", i+1, c)
						}
					}
				}
				if len(successKeys) > 0 && !destroyedCurrent {
					// current must be one of the successfully generated keys: the one committed last
					var cur []byte
					for _, k := range keys {
						if k.Seq == current {
							cur = k.Value
						}
					}
					okCur := false
					for _, k := range successKeys {
						if bytes.Equal(k, cur) {
							okCur = true
						}
					}
					if !okCur {
						failf("current key (seq %d) is not the key of any successful generate", current)
					}
				}
				// readers: every observed list consists of distinct keys known to the final ring
				// history, current first is not required of a reader racing with writers
				known := map[string]bool{}
				for _, k := range preKeys[c] {
					known[string(k)] = true
				}
				for _, rs := range results {
					for _, r := range rs {
						for _, k := range r.Keys {
							known[string(k)] = true
						}
					}
				}
				for ti, rs := range results {
					for _, r := range rs {
						if !strings.HasPrefix(r.Op, "read-") || !strings.Contains(r.Op, c) {
							continue
						}
						if r.Err != nil && strings.Contains(r.Err.Error(), "injected") {
							continue // the injected back-end failure hit this read
						}
						if r.Err != nil {
							// a reader may only fail when there is nothing to read
							if len(preKeys[c]) > 0 && nDestroyOK == 0 {
								failf("H%d: %s failed although keys exist and nothing was destroyed: %v", ti+1, r.Op, r.Err)
							}
							continue
						}
						var got [][]byte
						switch v := r.Val.(type) {
						case [][]byte:
							got = v
						case []byte:
							got = [][]byte{v}
						}
						seen := map[string]bool{}
						for _, k := range got {
							if !known[string(k)] {
								failf("H%d: %s returned a key that was never generated: %x…", ti+1, r.Op, k[:4])
							}
							if seen[string(k)] {
								failf("H%d: %s returned a key twice", ti+1, r.Op)
							}
							seen[string(k)] = true
						}
						if len(got) == 0 {
							failf("H%d: %s returned no key", ti+1, r.Op)
						}
					}
				}
			}
			// a failed (injected) operation must not leave a half-written ring: covered by readRing
			return fails
		}
	}
}

func anySuccess(results [][]opResult, op string) bool {
	for _, rs := range results {
		for _, r := range rs {
			if r.Op == op && r.Err == nil {
				return true
			}
		}
	}
	return false
}

// ---- v1 scenarios -------------------------------------------------------------------------

// sfs wraps the real file storage with scheduling points.
type sfs struct{ filesystem.FileStorage }

func (f *sfs) ReadFile(path string) ([]byte, error) {
	if s := active(); s != nil {
		s.Point("ReadFile " + shortPath(path))
	}
	return f.FileStorage.ReadFile(path)
}
func (f *sfs) ReadDir(path string) ([]os.FileInfo, error) {
	if s := active(); s != nil {
		s.Point("ReadDir " + shortPath(path))
	}
	return f.FileStorage.ReadDir(path)
}
func (f *sfs) Exists(path string) (bool, error) {
	if s := active(); s != nil {
		s.Point("Exists " + shortPath(path))
	}
	return f.FileStorage.Exists(path)
}
func (f *sfs) Stat(path string) (os.FileInfo, error) {
	if s := active(); s != nil {
		s.Point("Stat " + shortPath(path))
	}
	return f.FileStorage.Stat(path)
}

func shortPath(p string) string {
	if i := strings.LastIndex(p, "/"); i >= 0 {
		return p[i+1:]
	}
	return p
}

type v1call struct {
	Name string
	Run  func(ks *filesystem.KeyStore) ([][]byte, error)
}

func one(b []byte, err error) ([][]byte, error) {
	if err != nil {
		return nil, err
	}
	return [][]byte{b}, nil
}

func callHMAC(id []byte) v1call {
	return v1call{"hmac(" + string(id) + ")", func(ks *filesystem.KeyStore) ([][]byte, error) { return one(ks.GetHMACSecretKey(id)) }}
}
func callSymAll(id []byte) v1call {
	return v1call{"sym-all(" + string(id) + ")", func(ks *filesystem.KeyStore) ([][]byte, error) { return ks.GetClientIDSymmetricKeys(id) }}
}
func callSym(id []byte) v1call {
	return v1call{"sym(" + string(id) + ")", func(ks *filesystem.KeyStore) ([][]byte, error) { return one(ks.GetClientIDSymmetricKey(id)) }}
}
func callPrivAll(id []byte) v1call {
	return v1call{"priv-all(" + string(id) + ")", func(ks *filesystem.KeyStore) ([][]byte, error) {
		pk, err := ks.GetServerDecryptionPrivateKeys(id)
		if err != nil {
			return nil, err
		}
		var out [][]byte
		for _, k := range pk {
			out = append(out, k.Value)
		}
		return out, nil
	}}
}
func callPub(id []byte) v1call {
	return v1call{"pub(" + string(id) + ")", func(ks *filesystem.KeyStore) ([][]byte, error) {
		k, err := ks.GetClientIDEncryptionPublicKey(id)
		if err != nil {
			return nil, err
		}
		return [][]byte{k.Value}, nil // deliberately not copied: the caller uses this very slice
	}}
}
func callPoison() v1call {
	return v1call{"poison-pair", func(ks *filesystem.KeyStore) ([][]byte, error) {
		kp, err := ks.GetPoisonKeyPair()
		if err != nil {
			return nil, err
		}
		return [][]byte{kp.Private.Value, kp.Public.Value}, nil
	}}
}

type v1scenario struct {
	Name    string
	Cache   int
	Warm    []v1call // executed before the threads start (fills the cache)
	Threads [][]v1call
}

func v1scenarios(thorough bool) []v1scenario {
	sc := []v1scenario{
		{Name: "V1-hmac-evict", Cache: 1, Warm: []v1call{callHMAC(idA)}, Threads: [][]v1call{{callHMAC(idA)}, {callHMAC(idB)}}},
		{Name: "V1-get-get", Cache: 2, Warm: []v1call{callHMAC(idA)}, Threads: [][]v1call{{callHMAC(idA)}, {callHMAC(idA)}}},
		{Name: "V1-pub-evict", Cache: 1, Warm: []v1call{callPub(idA)}, Threads: [][]v1call{{callPub(idA)}, {callHMAC(idB)}}},
		// cold cache: the reader's key comes from the cache-miss path (read from the file, put into the
		// cache, handed to the caller) and the other thread's read evicts that entry afterwards
		{Name: "V1-pub-cold-evict", Cache: 1, Threads: [][]v1call{{callPub(idA)}, {callHMAC(idB)}}},
		{Name: "V1-poison-cold-evict", Cache: 1, Threads: [][]v1call{{callPoison()}, {callHMAC(idB)}}},
		{Name: "V1-priv-sym", Cache: 2, Threads: [][]v1call{{callPrivAll(idA)}, {callSymAll(idA)}}},
		{Name: "V1-sym-sym-cold", Cache: 2, Threads: [][]v1call{{callSym(idA)}, {callSym(idA)}}},
		{Name: "V1-poison-cold", Cache: 2, Threads: [][]v1call{{callPoison()}, {callPoison()}}},
	}
	if thorough {
		sc = append(sc,
			v1scenario{Name: "V1-three-readers", Cache: 1, Warm: []v1call{callHMAC(idA)}, Threads: [][]v1call{{callHMAC(idA)}, {callHMAC(idB)}, {callSym(idA)}}},
			v1scenario{Name: "V1-privall-evict", Cache: 1, Threads: [][]v1call{{callPrivAll(idA)}, {callHMAC(idB)}}},
		)
	}
	return sc
}

var v1dir string
var v1expected = map[string][][]byte{}

func v1setup() {
	v1dir = fx.Scratch("c17v1")
	detrand.Install(detrand.New("c17/v1"))
	ks := fx.NewKeyStoreV1(v1dir, keystore.WithoutCache)
	for _, id := range [][]byte{idA, idB} {
		fx.GenClientKeys(ks, id)
		fx.GenClientKeys(ks, id) // one rotation: "all keys" lists have two entries
	}
	if err := ks.GeneratePoisonKeyPair(); err != nil {
		ev.Fatalf("poison: %v", err)
	}
	for _, sc := range v1scenarios(true) {
		for _, th := range append([][]v1call{sc.Warm}, sc.Threads...) {
			for _, c := range th {
				if _, ok := v1expected[c.Name]; ok {
					continue
				}
				v, err := c.Run(ks)
				if err != nil {
					ev.Fatalf("expected value of %s: %v", c.Name, err)
				}
				var cp [][]byte
				for _, b := range v {
					cp = append(cp, append([]byte{}, b...))
				}
				v1expected[c.Name] = cp
			}
		}
	}
}

func (sc v1scenario) build() sched.Scenario {
	return func(s *sched.Scheduler) func(x *sched.Execution) []string {
		newExecution()
		detrand.Install(detrand.New("c17/v1/" + sc.Name))
		enc, err := keystore.NewSCellKeyEncryptor(append([]byte(nil), fx.MasterKey...))
		if err != nil {
			ev.Fatalf("encryptor: %v", err)
		}
		ks, err := filesystem.NewCustomFilesystemKeyStore().KeyDirectory(v1dir).Encryptor(enc).Storage(&sfs{}).CacheSize(sc.Cache).Build()
		if err != nil {
			ev.Fatalf("keystore: %v", err)
		}
		for _, c := range sc.Warm {
			if _, err := c.Run(ks); err != nil {
				ev.Fatalf("warm %s: %v", c.Name, err)
			}
		}
		type res struct {
			name string
			v    [][]byte
			err  error
		}
		results := make([][]res, len(sc.Threads))
		for ti, calls := range sc.Threads {
			ti, calls := ti, calls
			s.Go(fmt.Sprintf("T%d", ti+1), func() {
				for _, c := range calls {
					v, err := c.Run(ks)
					results[ti] = append(results[ti], res{c.Name, v, err})
				}
			})
		}
		return func(x *sched.Execution) []string {
			var fails []string
			for ti, rs := range results {
				for _, r := range rs {
					if r.err != nil {
						fails = append(fails, fmt.Sprintf("T%d: %s returned a spurious error: %v", ti+1, r.name, r.err))
						continue
					}
					want := v1expected[r.name]
					if len(r.v) != len(want) {
						fails = append(fails, fmt.Sprintf("T%d: %s returned %d keys, expected %d", ti+1, r.name, len(r.v), len(want)))
						continue
					}
					for i := range want {
						if !bytes.Equal(r.v[i], want[i]) {
							zero := bytes.Equal(r.v[i], make([]byte, len(r.v[i])))
							fails = append(fails, fmt.Sprintf("T%d: %s key #%d is not the stored key (all zero bytes: %v)", ti+1, r.name, i+1, zero))
						}
					}
				}
			}
			return fails
		}
	}
}

// ---- driver ---------------------------------------------------------------------------------

type replayT struct {
	Part     string `json:"part,omitempty"`    // "lifecycle": a handle life-cycle history (dirlock.go)
	History  []dlOp `json:"history,omitempty"`
	Scenario string `json:"scenario"`
	FailAt   int    `json:"fail_backend_call_of_first_thread,omitempty"`
	Bound    int    `json:"preemption_bound"`
	Choices  []int  `json:"choices"`
	Failure  string `json:"failure"`
}

func normalise(f string) string {
	// finding keys must not contain run-dependent bytes
	f = strings.Map(func(r rune) rune {
		if r == ' ' {
			return '_'
		}
		return r
	}, f)
	if len(f) > 120 {
		f = f[:120]
	}
	return f
}

func main() {
	r := ev.New("C17", "model_checking")
	fx.Quiet()
	installHooks()
	installFlockHook()
	_ = rand.Reader
	v1setup()
	defer os.RemoveAll(v1dir)
	maxBound := 2
	if r.Thorough() {
		maxBound = 3
	}
	type scen struct {
		name  string
		build func(failAt int) sched.Scenario
		fault bool
		bound int // own preemption bound (0 = the tier's)
		key   string // name used in finding keys ("" = name): one defect seen under many configurations of a family keeps one key
	}
	var all []scen
	for _, sc := range v2scenarios(r.Thorough()) {
		sc := sc
		all = append(all, scen{"v2/" + sc.Name, sc.build, sc.Fault, 0, ""})
	}
	for _, sc := range ringScenarios(r.Thorough()) {
		sc := sc
		all = append(all, scen{"v2/" + sc.Name, sc.build, sc.Fault, 0, ""})
	}
	// writers on the real directory back end with the real file lock (dirlock.go)
	for _, sc := range dirScenarios(r.Thorough()) {
		sc := sc
		b := 1 // every execution works on real files: bound 2 (about 11000 executions for the in-thread scenario alone) is left to thorough
		if r.Thorough() {
			b = 2
		}
		all = append(all, scen{"v2/" + sc.Name, sc.build, false, b, "v2/" + strings.SplitN(sc.Name, "/", 2)[0]})
	}
	for _, sc := range v1scenarios(r.Thorough()) {
		sc := sc
		all = append(all, scen{"v1/" + sc.Name, func(int) sched.Scenario { return sc.build() }, false, 0, ""})
	}
	if r.Replay != "" {
		var rp replayT
		r.LoadReplay(&rp)
		if rp.Part == "lifecycle" {
			class, msg, _, sig := dlRun(rp.History)
			fmt.Println("replay of life-cycle history", rp.History, "->", class, msg, sig)
			if class != "" {
				r.Violation("C17/dirlock/lifecycle/"+class, msg, rp)
			}
			r.Finish()
		}
		for _, sc := range all {
			if sc.name == rp.Scenario {
				e := &sched.Explorer{Scenario: sc.build(rp.FailAt), Bound: rp.Bound}
				fails := e.Replay(rp.Choices)
				fmt.Println("replay of", rp.Scenario, rp.Choices, "->", fails)
				kn := sc.name
				if sc.key != "" {
					kn = sc.key
				}
				for _, f := range fails {
					r.Violation("C17/"+kn+"/"+normalise(f), f, rp)
				}
			}
		}
		r.Finish()
	}
	lifeDepth := 7
	if r.Thorough() {
		lifeDepth = 9
	}
	t0 := time.Now() // measurement only (evidence key wall_seconds_*), never an oracle
	dirLifecycle(r, lifeDepth)
	r.Set("wall_seconds_dirlock_lifecycle", time.Since(t0).Seconds())
	dirWall, dirExec := time.Duration(0), 0
	totalExec, totalTrans := 0, 0
	boundsDone := map[string]int{}
	for _, sc := range all {
		faults := []int{0}
		if sc.fault {
			faults = nil
			for k := 1; k <= 12; k++ {
				faults = append(faults, k)
			}
		}
		for _, failAt := range faults {
			outcomes := map[string]int{}
			scBound := maxBound
			if sc.bound > 0 {
				scBound = sc.bound
			}
			for bound := 0; bound <= scBound; bound++ {
				if r.Expired() {
					r.Capped(fmt.Sprintf("%s: preemption bound %d not started", sc.name, bound))
					break
				}
				e := &sched.Explorer{Scenario: sc.build(failAt), Bound: bound, Stop: r.Expired,
					Outcome: func(x *sched.Execution) string { return fmt.Sprint(x.Choices) }}
				t1 := time.Now()
				res := e.Run()
				if strings.HasPrefix(sc.name, "v2/DIR-") {
					dirWall += time.Since(t1)
					dirExec += res.Executions
				}
				totalExec += res.Executions
				totalTrans += res.Transitions
				r.Eval(res.Executions)
				r.Traces(res.Executions)
				r.Transitions(res.Transitions)
				if !res.Complete {
					r.Capped(fmt.Sprintf("%s: preemption bound %d partial (%d executions)", sc.name, bound, res.Executions))
				} else {
					boundsDone[sc.name] = bound
				}
				for _, f := range res.Order {
					rp := replayT{Scenario: sc.name, FailAt: failAt, Bound: bound, Choices: res.Failures[f], Failure: f}
					// believe a failure only if it replays identically
					if again := e.Replay(res.Failures[f]); !contains(again, f) {
						ev.Fatalf("%s: failure %q did not replay (%v)", sc.name, f, again)
					}
					kn := sc.name
					if sc.key != "" {
						kn = sc.key
					}
					key := "C17/" + kn + "/" + normalise(f)
					if failAt > 0 {
						key = "C17/" + kn + "/fault/" + normalise(f)
					}
					r.Violation(key, fmt.Sprintf("%s: %s (preemption bound %d, schedule %v)", sc.name, f, bound, res.Failures[f]), rp)
				}
				for o, n := range res.Outcomes {
					outcomes[o] += n
				}
				r.Distinct(fmt.Sprintf("%s|%d|%d|%d", sc.name, failAt, bound, len(res.Outcomes)))
				if bound == scBound && failAt == faults[0] {
					r.Sample(map[string]interface{}{"scenario": sc.name, "preemption_bound": bound, "executions": res.Executions, "scheduling_points_max": res.MaxPoints, "failures": res.Order})
				}
			}
			for o := range outcomes {
				r.Distinct(sc.name + "|" + strconv.Itoa(failAt) + "|" + o)
			}
		}
	}
	r.States(totalExec)
	dirCleanup()
	r.Set("wall_seconds_dirlock_writers", dirWall.Seconds())
	r.Set("dirlock_writer_executions", dirExec)
	r.Set("preemption_bounds_completed", boundsDone)
	r.Set("scenarios", len(all))
	r.Rule("state = one complete interleaving (choice sequence) of a scenario; transitions = scheduling points executed; every interleaving with at most B preemptions is executed on the real code for B = 0..max; distinct_nontrivial = distinct schedules per (scenario, fault position) plus distinct outcome counts; dirlock life cycle (dirlock.go part L): state = one history (incl. every prefix) over {open, close, lock, unlock, rlock, runlock} x 3 handle slots of one real key directory (an operation is enabled when the handle's own state admits it; slots first used in order), every history of the full depth is executed on a fresh directory with the real DirectoryBackend; evaluation = one lock / rlock attempt compared with the flock contract (granted iff no other live handle holds a conflicting lock); distinct = distinct granted/waits outcome strings; dirlock writers (part W): scenarios v2/DIR-*: interleavings (as above) of two generate operations through the real key store over the real DirectoryBackend, for each of the 2 + 12 orders of the preamble events {open A, open B, open X, close X} and for handles opened inside the threads with a third thread opening and closing X; finding keys name the family, the replay names the configuration")
	r.Assume("scheduling points at lock operations, back-end/storage calls and LRU operations; accesses between two points are atomic (checked separately by the lockset monitor on instrumented objects and by a free-running -race pass in thorough)",
		"separate processes are represented by separate keystore handles sharing one back end; the back end lock is modelled by a scheduler-aware reader/writer lock with the contract of flock / RWMutex",
		"Themis replaced by the pure-Go stand-in",
		"dirlock.go: separate processes are represented by separate handles of one key directory in one process (flock locks belong to the open file description, and each handle opens its own); every flock(2) call of file_lock.go is preceded by the same call with LOCK_NB on the same descriptor (build overlay seam): EWOULDBLOCK is the observation 'would wait' (part L) or makes the scheduler thread wait cooperatively (part W); who excludes whom is decided by the kernel, nothing of the lock is modelled; a failed generate (optimistic refusal) may leave its added key behind as a non-current key (accepted: the statement speaks of successful operations)",
		"dirlock.go part L: handle slot 1 is opened with OpenDirectoryBackend, slots 0 and 2 with CreateDirectoryBackend; the key directory is created (one handle opened and closed) before each history; a Lock on a handle that already holds a lock (self-deadlock by contract) is not in the alphabet; failures of flock(2) itself are C08's")
	if r.Thorough() {
		raceCrossCheck(r)
	}
	os.RemoveAll(v1dir) // Finish exits the process: the deferred removal above never runs
	r.Finish()
}

func contains(l []string, s string) bool {
	for _, x := range l {
		if x == s {
			return true
		}
	}
	return false
}

// raceCrossCheck runs Acra's own keystore packages' tests plus a concurrent reader body under
// the Go race detector, free-running (no scheduler): recorded in evidence, never decides.
func raceCrossCheck(r *ev.Run) {
	cmd := exec.Command(os.Getenv("VERIF_ROOT")+"/bin/acratest", "-race", "-run", "Cache|Concurrent|Parallel", "./keystore/lru/...", "./keystore/filesystem/...")
	out, err := cmd.CombinedOutput()
	r.Set("free_running_race_pass", map[string]interface{}{"cmd": strings.Join(cmd.Args, " "), "ok": err == nil, "tail": tail(string(out), 300)})
}

func tail(s string, n int) string {
	if len(s) > n {
		return s[len(s)-n:]
	}
	return s
}
