// C12, MySQL half: the real MySQL proxy (decryptor/mysql) driven in-process by sess.MySession,
// observed with the independent codec sess/mycodec.go.
//
//	(a) RELAY   sessions of client command groups Acra has no reason to change x scripted backend
//	            answers; oracle: byte identity and order of both directed streams, hand-shake
//	            included.
//	(b) REWRITE inserts into / selects from configured tables; oracle: every packet the proxy
//	            emitted decodes, lengths are consistent, field counts and NULL markers are kept,
//	            untransformed fields are byte-identical, protected fields carry the plaintext.
//	(c) CODECS  base.LengthEncodedInt / PutLengthEncodedInt / LengthEncodedString /
//	            PutLengthEncodedString / SkipLengthEncodedString over boundary values.
//
// What Acra legitimately rewrites during the connection phase: NOTHING as long as the client does
// not ask for TLS. ProxyDatabaseConnection (stateFirstPacket) only reads the capability flags of
// the greeting and ProxyClientConnection (firstPacket) only reads the capability flags of the
// handshake response; both packets are written through with packet.Dump(). (With CLIENT_SSL the
// proxy terminates TLS itself; TLS is out of scope here.) Therefore the relay oracle compares the
// complete streams, hand-shake included, and nothing is excluded.
//
// CLIENT_DEPRECATE_EOF: Acra passes the capability flags through unchanged, so the feature is in
// effect whenever client and server both offer it, and QueryResponseHandler has explicit support
// for it (Capabilities.IsClientDeprecateEOF). Every relay and rewrite case is therefore run in
// both modes ("eof" = classic EOF packets, "deof" = CLIENT_DEPRECATE_EOF negotiated).
package main

import (
	"bytes"
	"encoding/binary"
	"errors"
	"fmt"
	"math"
	"sort"
	"strings"
	"sync"

	"github.com/cossacklabs/acra/keystore/filesystem"

	"verif/ev"
	"verif/fx"
	"verif/par"
	"verif/sess"
)

// ---- alphabets ---------------------------------------------------------------------------------------

// value shapes shared by parameters and result fields
type myShape struct {
	Name string
	Val  []byte // nil = NULL
}

func myShapes(thorough bool) []myShape {
	return []myShape{
		{"NULL", nil}, {"empty", []byte{}}, {"1", []byte("x")}, {"250", big(250, 'a')}, {"251", big(251, 'b')},
		{"252", big(252, 'c')}, {"65535", big(65535, 'd')}, {"65536", big(65536, 'e')},
	}
}

// one client/server exchange of a group
type myEx struct {
	Cmds  [][]byte                // command payloads, each sent as its own packet with sequence id 0
	Fixed func(dep bool) [][]byte // scripted answer (payloads, sequence ids from 1); nil = none
	Slot  bool                    // answered by the answer under test
}

type myGroup struct {
	Name  string // "class:detail"
	Pair  string // coarse class used when sequences are enumerated ("" = class of Name)
	Kind  string // selects the compatible answers
	Exs   []myEx
	NPar  int  // parameters of the prepared statement (prepare kinds)
	Quits bool // the group ends with COM_QUIT: the proxy closes the session
}

type myAnswer struct {
	Name  string // "class:detail"
	Cat   string // coarse category used when sequences are enumerated ("" = class of Name)
	Kinds string // space-separated group kinds this answer is a valid response to
	Build func(dep bool, g *myGroup) [][]byte
}

func (g *myGroup) pairClass() string {
	if g.Pair != "" {
		return g.Pair
	}
	return classOf(g.Name)
}

func (a *myAnswer) cat() string {
	if a.Cat != "" {
		return a.Cat
	}
	return classOf(a.Name)
}

func classOf(name string) string {
	if i := strings.IndexByte(name, ':'); i >= 0 {
		return name[:i]
	}
	return name
}

func myCol(table, name string, typ byte) *sess.MyColumnDef {
	c := &sess.MyColumnDef{Catalog: []byte("def"), Schema: []byte("appdb"), Table: []byte(table), OrgTable: []byte(table),
		Name: []byte(name), OrgName: []byte(name), Charset: 0xff, ColumnLength: 1020, Type: typ}
	switch typ {
	case sess.MyTypeBlob, sess.MyTypeLongBlob, sess.MyTypeMediumBlob, sess.MyTypeTinyBlob:
		c.Charset, c.ColumnLength, c.Flags = 63, 65535, 0x0090 // BLOB_FLAG | BINARY_FLAG
	case sess.MyTypeLong, sess.MyTypeLongLong, sess.MyTypeTiny, sess.MyTypeShort, sess.MyTypeInt24, sess.MyTypeYear:
		c.Charset, c.ColumnLength, c.Flags = 63, 11, 0x0080
	case sess.MyTypeFloat, sess.MyTypeDouble:
		c.Charset, c.ColumnLength, c.Decimals = 63, 22, 0x1f
	}
	return c
}

func eofOrOK(dep bool, status uint16) []byte {
	if dep {
		return (&sess.MyOK{Header: 0xfe, Status: status}).Encode()
	}
	return (&sess.MyEOF{Status: status}).Encode()
}

// resultSet serialises a text or binary result set.
func resultSet(dep, binaryRows bool, cols []*sess.MyColumnDef, rows [][][]byte, status uint16) [][]byte {
	out := [][]byte{sess.MyPutLenencInt(nil, uint64(len(cols)))}
	types := make([]byte, len(cols))
	for i, c := range cols {
		out = append(out, c.Encode())
		types[i] = c.Type
	}
	if !dep {
		out = append(out, (&sess.MyEOF{Status: sess.MyStatusAutocommit}).Encode())
	}
	for _, r := range rows {
		if binaryRows {
			b, err := sess.MyBinaryRow(types, r)
			if err != nil {
				ev.Fatalf("alphabet: %v", err)
			}
			out = append(out, b)
		} else {
			out = append(out, sess.MyTextRow(r))
		}
	}
	return append(out, eofOrOK(dep, status))
}

func prepareOK(dep bool, id uint32, params, cols []*sess.MyColumnDef) [][]byte {
	out := [][]byte{(&sess.MyPrepareOK{StmtID: id, NumParams: uint16(len(params)), NumColumns: uint16(len(cols))}).Encode()}
	for _, blk := range [][]*sess.MyColumnDef{params, cols} {
		if len(blk) == 0 {
			continue
		}
		for _, c := range blk {
			out = append(out, c.Encode())
		}
		if !dep {
			out = append(out, (&sess.MyEOF{Status: sess.MyStatusAutocommit}).Encode())
		}
	}
	return out
}

func paramDefs(n int) []*sess.MyColumnDef {
	var out []*sess.MyColumnDef
	for i := 0; i < n; i++ {
		c := myCol("", "?", sess.MyTypeVarString)
		c.Schema, c.OrgTable, c.OrgName = []byte{}, []byte{}, []byte{}
		c.Charset, c.ColumnLength, c.Flags = 63, 0, 0x0080
		out = append(out, c)
	}
	return out
}

func uCols(n int, typ byte) []*sess.MyColumnDef {
	var out []*sess.MyColumnDef
	for i := 0; i < n; i++ {
		out = append(out, myCol("u", fmt.Sprintf("col%d", i), typ))
	}
	return out
}

const relayStmtID = 5

func psSQL(n int) string {
	q := "select note, extra from u"
	for i := 0; i < n; i++ {
		if i == 0 {
			q += " where a = ?"
		} else {
			q += fmt.Sprintf(" or b%d = ?", i)
		}
	}
	return q
}

func mustExec(e *sess.MyExecute) []byte {
	b, err := e.Encode()
	if err != nil {
		ev.Fatalf("alphabet: %v", err)
	}
	return b
}

func le(n int, v uint64) []byte {
	b := make([]byte, 8)
	binary.LittleEndian.PutUint64(b, v)
	return b[:n]
}

func myGroups(thorough bool) []myGroup {
	q := func(name, sql string) myGroup {
		return myGroup{Name: name, Kind: "query", Exs: []myEx{{Cmds: [][]byte{sess.MyQuery(sql)}, Slot: true}}}
	}
	g := []myGroup{
		q("query:select-unconfigured", "select note from u where id = 1"),
		q("query:empty", ""),
		q("query:comment-only", "/* nothing */"),
		q("query:weird-spacing", "SELECT   1 ,\t'it''s' ;"),
		q("query:insert-unconfigured", "insert into u (id, note) values (1, 'x')"),
		q("query:update-unconfigured", "update   u set note = 'y' /* c */ where id = 2"),
		q("query:unparsable", "selec garbage (( from"),
		q("query:non-utf8", "select '\xff\xfe\x00' from u"),
		q("query:multi-statement", "select 1; select note from u"),
		q("query:64k", "select '"+strings.Repeat("x", 65536)+"' from u"),
		q("query:set-names", "SET NAMES utf8mb4"),
		q("query:begin", "START TRANSACTION"),
		{Name: "ping", Kind: "ok", Exs: []myEx{{Cmds: [][]byte{sess.MyCmd(sess.MyComPing, nil)}, Slot: true}}},
		{Name: "init-db", Kind: "ok", Exs: []myEx{{Cmds: [][]byte{sess.MyCmd(sess.MyComInitDB, []byte("otherdb"))}, Slot: true}}},
		{Name: "reset-connection", Kind: "ok", Exs: []myEx{{Cmds: [][]byte{sess.MyCmd(sess.MyComResetConn, nil)}, Slot: true}}},
		{Name: "stmt-reset", Kind: "ok", Exs: []myEx{{Cmds: [][]byte{sess.MyStmtID(sess.MyComStmtReset, relayStmtID)}, Slot: true}}},
		{Name: "set-option", Kind: "eof", Exs: []myEx{{Cmds: [][]byte{sess.MyCmd(sess.MyComSetOption, []byte{0, 0})}, Slot: true}}},
		{Name: "stmt-close-unknown", Kind: "none", Exs: []myEx{{Cmds: [][]byte{sess.MyStmtID(sess.MyComStmtClose, 77)}}}},
		{Name: "stmt-send-long-data", Kind: "none", Exs: []myEx{{Cmds: [][]byte{sess.MyCmd(sess.MyComStmtLongData, append(le(4, relayStmtID), 0, 0, 'l', 'o', 'n', 'g'))}}}},
		{Name: "quit", Kind: "none", Quits: true, Exs: []myEx{{Cmds: [][]byte{sess.MyCmd(sess.MyComQuit, nil)}}}},
	}
	// COM_STMT_PREPARE alone: the answer under test is the prepare response
	for n := 0; n <= 3; n++ {
		pc := "prepare-np"
		if n == 0 {
			pc = "prepare-0p"
		}
		g = append(g, myGroup{Name: fmt.Sprintf("prepare-%dp", n), Pair: pc, Kind: "prepare", NPar: n,
			Exs: []myEx{{Cmds: [][]byte{sess.MyPrepare(psSQL(n))}, Slot: true}}})
	}
	// prepare (fixed answer) + execute (answer under test) + close
	exec := func(name string, params []sess.MyParam, rebind bool) myGroup {
		n := len(params)
		prep := myEx{Cmds: [][]byte{sess.MyPrepare(psSQL(n))}, Fixed: func(dep bool) [][]byte {
			return prepareOK(dep, relayStmtID, paramDefs(n), uCols(2, sess.MyTypeVarString))
		}}
		ex := myEx{Cmds: [][]byte{mustExec(&sess.MyExecute{StmtID: relayStmtID, Iterations: 1, NewParamsBound: true, Params: params})}, Slot: true}
		exs := []myEx{prep, ex}
		if rebind {
			// second execution with the new-params-bound flag clear (types are those of the first one)
			exs = append(exs, myEx{Cmds: [][]byte{mustExec(&sess.MyExecute{StmtID: relayStmtID, Iterations: 1, NewParamsBound: false, Params: params})}, Slot: true})
		}
		exs = append(exs, myEx{Cmds: [][]byte{sess.MyStmtID(sess.MyComStmtClose, relayStmtID)}})
		pc := "exec-np"
		switch {
		case n == 0:
			pc = "exec-0p"
		case rebind:
			pc = "exec-rebind"
		case strings.Contains(name, "null"):
			pc = "exec-nulltype"
		}
		return myGroup{Name: name, Pair: pc, Kind: "exec", NPar: n, Exs: exs}
	}
	shapes := myShapes(thorough)
	g = append(g, exec("exec-0p", nil, false))
	for _, s := range shapes {
		for _, t := range []struct {
			n string
			t byte
		}{{"varstring", sess.MyTypeVarString}, {"blob", sess.MyTypeBlob}} {
			g = append(g, exec(fmt.Sprintf("exec-1p-%s:%s", t.n, s.Name), []sess.MyParam{{Type: t.t, Value: s.Val}}, false))
		}
	}
	for i, s1 := range shapes {
		for j, s2 := range shapes {
			if !thorough && (i+j)%2 == 1 {
				continue
			}
			g = append(g, exec(fmt.Sprintf("exec-2p:%s,%s", s1.Name, s2.Name), []sess.MyParam{{Type: sess.MyTypeVarString, Value: s1.Val}, {Type: sess.MyTypeBlob, Value: s2.Val}}, false))
		}
	}
	for i := range shapes {
		n := len(shapes)
		a, b, c := shapes[i], shapes[(i+1)%n], shapes[(i+3)%n]
		g = append(g, exec(fmt.Sprintf("exec-3p:%s,%s,%s", a.Name, b.Name, c.Name), []sess.MyParam{{Type: sess.MyTypeVarString, Value: a.Val}, {Type: sess.MyTypeString, Value: b.Val}, {Type: sess.MyTypeLongBlob, Value: c.Val}}, false))
	}
	if thorough {
		for i, a := range shapes {
			for j, b := range shapes {
				for k, c := range shapes {
					if (i+j+k)%3 != 0 {
						continue
					}
					g = append(g, exec(fmt.Sprintf("exec-3p:%s,%s,%s/t", a.Name, b.Name, c.Name), []sess.MyParam{{Type: sess.MyTypeBlob, Value: a.Val}, {Type: sess.MyTypeVarString, Value: b.Val}, {Type: sess.MyTypeVarString, Value: c.Val}}, false))
				}
			}
		}
	}
	// NULL parameters: typed MYSQL_TYPE_NULL (Connector/J, mysqlnd, go-sql-driver) or typed as the
	// bound buffer with only the NULL-bitmap bit set (libmysqlclient)
	g = append(g,
		exec("exec-3p-nulltype:1,NULL,1", []sess.MyParam{{Type: sess.MyTypeVarString, Value: []byte("a")}, {Type: sess.MyTypeNull}, {Type: sess.MyTypeVarString, Value: []byte("b")}}, false),
		exec("exec-3p-allnull", []sess.MyParam{{Type: sess.MyTypeNull}, {Type: sess.MyTypeBlob}, {Type: sess.MyTypeLong}}, false),
		exec("exec-2p-rebind:250,1", []sess.MyParam{{Type: sess.MyTypeVarString, Value: big(250, 'r')}, {Type: sess.MyTypeLong, Value: le(4, 7)}}, true),
		exec("exec-1p-rebind:NULL", []sess.MyParam{{Type: sess.MyTypeVarString}}, true),
	)
	// the numeric, temporal and other types of the binary protocol as parameters
	typed := []struct {
		n string
		p sess.MyParam
	}{
		{"tiny", sess.MyParam{Type: sess.MyTypeTiny, Value: []byte{0x80}}},
		{"tiny-unsigned", sess.MyParam{Type: sess.MyTypeTiny, Unsigned: true, Value: []byte{0xff}}},
		{"short", sess.MyParam{Type: sess.MyTypeShort, Value: le(2, 0x8000)}},
		{"long", sess.MyParam{Type: sess.MyTypeLong, Value: le(4, 0x80000000)}},
		{"long-unsigned", sess.MyParam{Type: sess.MyTypeLong, Unsigned: true, Value: le(4, 0xffffffff)}},
		{"longlong", sess.MyParam{Type: sess.MyTypeLongLong, Value: le(8, 1<<63)}},
		{"longlong-unsigned", sess.MyParam{Type: sess.MyTypeLongLong, Unsigned: true, Value: le(8, math.MaxUint64)}},
		{"int24", sess.MyParam{Type: sess.MyTypeInt24, Value: le(4, 0x7fffff)}},
		{"year", sess.MyParam{Type: sess.MyTypeYear, Value: le(2, 2024)}},
		{"float", sess.MyParam{Type: sess.MyTypeFloat, Value: le(4, uint64(math.Float32bits(1.1)))}},
		{"double", sess.MyParam{Type: sess.MyTypeDouble, Value: le(8, math.Float64bits(0.5))}},
		{"double-precise", sess.MyParam{Type: sess.MyTypeDouble, Value: le(8, math.Float64bits(1.2345678901234567))}},
		{"datetime7", sess.MyParam{Type: sess.MyTypeDatetime, Value: []byte{0xe8, 0x07, 2, 29, 23, 59, 58}}},
		{"datetime0", sess.MyParam{Type: sess.MyTypeDatetime, Value: []byte{}}},
		{"timestamp11", sess.MyParam{Type: sess.MyTypeTimestamp, Value: []byte{0xe8, 0x07, 2, 29, 23, 59, 58, 1, 2, 3, 0}}},
		{"date4", sess.MyParam{Type: sess.MyTypeDate, Value: []byte{0xe8, 0x07, 2, 29}}},
		{"time8", sess.MyParam{Type: sess.MyTypeTime, Value: []byte{1, 1, 0, 0, 0, 2, 3, 4}}},
		{"newdecimal", sess.MyParam{Type: sess.MyTypeNewDecimal, Value: []byte("-123.450")}},
		{"json", sess.MyParam{Type: sess.MyTypeJSON, Value: []byte(`{"a":1}`)}},
		{"bit", sess.MyParam{Type: sess.MyTypeBit, Value: []byte{0x01, 0xff}}},
	}
	for _, t := range typed {
		g = append(g, exec("exec-2p-typed:"+t.n, []sess.MyParam{t.p, {Type: sess.MyTypeVarString, Value: []byte("tail")}}, false))
	}
	return g
}

func myAnswers(thorough bool) []myAnswer {
	fixed := func(name, kinds string, payloads ...[]byte) myAnswer {
		return myAnswer{Name: name, Kinds: kinds, Build: func(bool, *myGroup) [][]byte { return payloads }}
	}
	a := []myAnswer{
		fixed("ok:plain", "query ok exec", (&sess.MyOK{Status: sess.MyStatusAutocommit}).Encode()),
		fixed("ok:affected-251-insertid-65536", "query ok exec", (&sess.MyOK{AffectedRows: 251, LastInsertID: 65536, Status: sess.MyStatusAutocommit | sess.MyStatusInTrans, Warnings: 3}).Encode()),
		fixed("ok:info", "query ok exec", (&sess.MyOK{AffectedRows: 1 << 24, Status: sess.MyStatusAutocommit, Info: []byte("Rows matched: 1  Changed: 1  Warnings: 0")}).Encode()),
		fixed("err:plain", "query ok exec prepare eof", (&sess.MyERR{Code: 1146, SQLState: "42S02", Message: "Table 'appdb.u' doesn't exist"}).Encode()),
		fixed("err:empty-message", "query ok exec prepare eof", (&sess.MyERR{Code: 1064, SQLState: "42000"}).Encode()),
		fixed("eof:plain", "eof", (&sess.MyEOF{Status: sess.MyStatusAutocommit}).Encode()),
		fixed("eof:warnings", "eof", (&sess.MyEOF{Warnings: 2, Status: sess.MyStatusAutocommit | sess.MyStatusInTrans}).Encode()),
	}
	shapes := myShapes(thorough)
	rs := func(name string, binaryRows bool, cols []*sess.MyColumnDef, rows [][][]byte) myAnswer {
		kinds := "query"
		if binaryRows {
			kinds = "exec"
		}
		return myAnswer{Name: name, Cat: map[bool]string{false: "text-rs", true: "bin-rs"}[binaryRows], Kinds: kinds, Build: func(dep bool, _ *myGroup) [][]byte {
			return resultSet(dep, binaryRows, cols, rows, sess.MyStatusAutocommit)
		}}
	}
	for _, bin := range []bool{false, true} {
		p := "text"
		if bin {
			p = "bin"
		}
		// string-like columns over the value shapes: 1 column all shapes, 2 columns all pairs
		// (quick: half of them), 3 columns rotations and NULL patterns
		for _, s := range shapes {
			a = append(a, rs(fmt.Sprintf("%s-1col:%s", p, s.Name), bin, uCols(1, sess.MyTypeVarString), [][][]byte{{s.Val}}))
		}
		for i, s1 := range shapes {
			for j, s2 := range shapes {
				if !thorough && (i+j)%2 == 1 {
					continue
				}
				a = append(a, rs(fmt.Sprintf("%s-2col:%s,%s", p, s1.Name, s2.Name), bin, []*sess.MyColumnDef{myCol("u", "col0", sess.MyTypeVarString), myCol("u", "col1", sess.MyTypeBlob)}, [][][]byte{{s1.Val, s2.Val}}))
			}
		}
		for i := range shapes {
			n := len(shapes)
			r1 := [][]byte{shapes[i].Val, shapes[(i+1)%n].Val, shapes[(i+3)%n].Val}
			a = append(a, rs(fmt.Sprintf("%s-3col-2rows:%s,%s,%s", p, shapes[i].Name, shapes[(i+1)%n].Name, shapes[(i+3)%n].Name), bin,
				[]*sess.MyColumnDef{myCol("u", "col0", sess.MyTypeBlob), myCol("u", "col1", sess.MyTypeVarString), myCol("u", "col2", sess.MyTypeString)},
				[][][]byte{r1, {nil, nil, nil}}))
		}
		for m := 0; m < 8; m++ {
			row := make([][]byte, 3)
			var nm []string
			for k := 0; k < 3; k++ {
				if m&(1<<k) == 0 {
					row[k] = []byte(fmt.Sprintf("v%d", k))
					nm = append(nm, "v")
				} else {
					nm = append(nm, "NULL")
				}
			}
			a = append(a, rs(fmt.Sprintf("%s-3col-nullpattern:%s", p, strings.Join(nm, ",")), bin, uCols(3, sess.MyTypeVarString), [][][]byte{row}))
		}
		a = append(a,
			rs(p+"-1col-0rows", bin, uCols(1, sess.MyTypeVarString), nil),
			rs(p+"-3col-0rows", bin, uCols(3, sess.MyTypeBlob), nil),
			// a first field that is the empty string makes the row packet start with 0x00
			rs(p+"-2col-first-empty:empty,8bytes", bin, uCols(2, sess.MyTypeVarString), [][][]byte{{[]byte{}, []byte("12345678")}, {[]byte("second"), []byte("row")}}),
			// seven columns: the NULL bitmap of a binary row (bit offset 2) spills into a second byte
			rs(p+"-7col-nulls-6-7", bin, uCols(7, sess.MyTypeVarString), [][][]byte{{[]byte("a"), []byte("b"), []byte("c"), []byte("d"), []byte("e"), nil, nil}, {nil, []byte("b"), nil, []byte("d"), nil, []byte("f"), []byte("g")}}),
		)
		// rows, then an ERR packet instead of the terminator (query killed while streaming)
		bb := bin
		a = append(a, myAnswer{Name: p + "-rows-then-err", Kinds: map[bool]string{false: "query", true: "exec"}[bin], Build: func(dep bool, _ *myGroup) [][]byte {
			out := resultSet(dep, bb, uCols(1, sess.MyTypeVarString), [][][]byte{{[]byte("row1")}}, 0)
			out[len(out)-1] = (&sess.MyERR{Code: 1317, SQLState: "70100", Message: "Query execution was interrupted"}).Encode()
			return out
		}})
		// two result sets chained with SERVER_MORE_RESULTS_EXISTS, then a final OK
		a = append(a, myAnswer{Name: p + "-multi-result", Kinds: map[bool]string{false: "query", true: "exec"}[bin], Build: func(dep bool, _ *myGroup) [][]byte {
			out := resultSet(dep, bb, uCols(1, sess.MyTypeVarString), [][][]byte{{[]byte("first")}}, sess.MyStatusAutocommit|sess.MyStatusMoreResultsExist)
			out = append(out, resultSet(dep, bb, uCols(2, sess.MyTypeVarString), [][][]byte{{[]byte("second"), nil}}, sess.MyStatusAutocommit|sess.MyStatusMoreResultsExist)...)
			return append(out, (&sess.MyOK{Status: sess.MyStatusAutocommit}).Encode())
		}})
	}
	// OK with the more-results flag followed by a text result set (multi-statement)
	a = append(a, myAnswer{Name: "ok-more-then-text", Kinds: "query", Build: func(dep bool, _ *myGroup) [][]byte {
		out := [][]byte{(&sess.MyOK{AffectedRows: 1, Status: sess.MyStatusAutocommit | sess.MyStatusMoreResultsExist}).Encode()}
		return append(out, resultSet(dep, false, uCols(1, sess.MyTypeVarString), [][][]byte{{[]byte("after-ok")}}, sess.MyStatusAutocommit)...)
	}})
	// text result sets carry every type as a string: a few typed columns for the definitions' sake
	a = append(a, rs("text-3col-typed", false, []*sess.MyColumnDef{myCol("u", "n", sess.MyTypeLong), myCol("u", "f", sess.MyTypeDouble), myCol("u", "j", sess.MyTypeJSON)}, [][][]byte{{[]byte("-17"), []byte("1.2345678901234567"), []byte(`{"a":1}`)}}))
	// binary rows: one answer per non-string type, value first, a string column after it
	typed := []struct {
		n string
		t byte
		v []byte
	}{
		{"tiny", sess.MyTypeTiny, []byte{0x80}}, {"short", sess.MyTypeShort, le(2, 0xffff)}, {"long", sess.MyTypeLong, le(4, 0x80000000)},
		{"longlong", sess.MyTypeLongLong, le(8, 1<<63)}, {"longlong-max-unsigned", sess.MyTypeLongLong, le(8, math.MaxUint64)},
		{"int24", sess.MyTypeInt24, le(4, 0xff800000)}, {"year", sess.MyTypeYear, le(2, 2024)},
		{"float", sess.MyTypeFloat, le(4, uint64(math.Float32bits(1.1)))}, {"float-large", sess.MyTypeFloat, le(4, uint64(math.Float32bits(3.4e38)))},
		{"double:short", sess.MyTypeDouble, le(8, math.Float64bits(0.5))}, {"double:precise", sess.MyTypeDouble, le(8, math.Float64bits(1.2345678901234567))},
		{"double:large", sess.MyTypeDouble, le(8, math.Float64bits(1.7e308))},
		{"datetime7", sess.MyTypeDatetime, []byte{0xe8, 0x07, 2, 29, 23, 59, 58}}, {"datetime0", sess.MyTypeDatetime, []byte{}},
		{"timestamp11", sess.MyTypeTimestamp, []byte{0xe8, 0x07, 2, 29, 23, 59, 58, 1, 2, 3, 0}}, {"date4", sess.MyTypeDate, []byte{0xe8, 0x07, 2, 29}},
		{"time12", sess.MyTypeTime, []byte{1, 1, 0, 0, 0, 2, 3, 4, 9, 9, 9, 0}},
		{"newdecimal", sess.MyTypeNewDecimal, []byte("-123.450")}, {"json", sess.MyTypeJSON, []byte(`{"a":1}`)}, {"bit", sess.MyTypeBit, []byte{0x01, 0xff}},
		{"enum", sess.MyTypeString, []byte("red")}, {"geometry", sess.MyTypeGeometry, []byte{0, 0, 0, 0, 1, 1, 0, 0, 0}},
	}
	for _, t := range typed {
		a = append(a, rs("bin-2col-"+t.n, true, []*sess.MyColumnDef{myCol("u", "typed", t.t), myCol("u", "s", sess.MyTypeVarString)}, [][][]byte{{t.v, []byte("tail")}, {nil, []byte("after-null")}}))
	}
	// prepare responses: parameter count from the group, 0..3 result columns
	for nc := 0; nc <= 3; nc++ {
		ncc := nc
		cat := "prepare-ok-cols"
		if nc == 0 {
			cat = "prepare-ok-0cols"
		}
		a = append(a, myAnswer{Name: fmt.Sprintf("prepare-ok:%dcols", nc), Cat: cat, Kinds: "prepare", Build: func(dep bool, g *myGroup) [][]byte {
			return prepareOK(dep, relayStmtID, paramDefs(g.NPar), uCols(ncc, sess.MyTypeVarString))
		}})
	}
	return a
}

func fits(g *myGroup, a *myAnswer) bool {
	for _, k := range strings.Fields(a.Kinds) {
		if k == g.Kind {
			return true
		}
	}
	return false
}

// ---- relay ---------------------------------------------------------------------------------------------

type myRelayStep struct {
	Group  string `json:"group"`
	Answer string `json:"answer,omitempty"`
}

type myRelayCase struct {
	Part         string        `json:"part"` // "mysql-relay"
	DeprecateEOF bool          `json:"client_deprecate_eof"`
	Steps        []myRelayStep `json:"steps"`
}

func modeName(dep bool) string {
	if dep {
		return "deof"
	}
	return "eof"
}

// a relay failure, keyed without the EOF mode; the mode is added when the violations are emitted
// (a defect that shows in both modes gets one key)
type myRelayFailure struct {
	Where string // group classes of the steps up to the failing one + answer class + failure class
	Msg   string
	Case  myRelayCase
}

type myRelay struct {
	r      *ev.Run
	env    *sess.MyEnv
	groups map[string]*myGroup
	answ   map[string]*myAnswer
	mu     sync.Mutex
	failed map[string]bool // seqKey of failing (prefixes of) sequences
	fails  []myRelayFailure
}

func (m *myRelay) newSession(dep bool) *sess.MySession {
	s, err := sess.NewMySession(m.env, fx.Alpha, nil)
	if err != nil {
		ev.Fatalf("mysql session: %v", err)
	}
	if dep {
		s.ClientCaps |= sess.MyCapDeprecateEOF
	} else {
		s.ClientCaps &^= sess.MyCapDeprecateEOF
	}
	return s
}

// run executes one relay session and evaluates the identity oracle after every exchange.
func (m *myRelay) run(c myRelayCase) (ok bool) {
	r := m.r
	s := m.newSession(c.DeprecateEOF)
	defer s.Close()
	var seq []string
	fail := func(step int, class, format string, a ...interface{}) bool {
		// the steps before the failing one by their coarse class, the failing step by its kind
		// (the response path depends on the command kind only) and the class of its answer
		st := c.Steps[step]
		where := append(append([]string{}, seq[:step]...), m.groups[st.Group].Kind+"("+classOf(st.Group)+")")
		if class == "database-to-client-differs" || class == "terminated" || class == "panic" || class == "malformed" {
			where[step] = m.groups[st.Group].Kind
		}
		w := strings.Join(where, "+")
		if st.Answer != "" {
			w += "/" + classOf(st.Answer)
		}
		m.mu.Lock()
		m.fails = append(m.fails, myRelayFailure{Where: w + "/" + class, Msg: fmt.Sprintf(format, a...), Case: c})
		m.failed[seqKey(c.DeprecateEOF, c.Steps[:step+1])] = true
		m.mu.Unlock()
		return false
	}
	if err := s.Startup(); err != nil {
		if errors.Is(err, sess.ErrHarness) {
			ev.Fatalf("mysql relay startup: %v", err)
		}
		m.mu.Lock()
		m.fails = append(m.fails, myRelayFailure{Where: "startup/malformed", Msg: err.Error(), Case: c})
		m.mu.Unlock()
		return false
	}
	outcome := "identical"
	for i, st := range c.Steps {
		g := m.groups[st.Group]
		an := m.answ[st.Answer]
		if g == nil || (st.Answer != "" && an == nil) {
			ev.Fatalf("mysql relay: unknown group/answer in %+v", st)
		}
		seq = append(seq, g.pairClass())
		for xi, ex := range g.Exs {
			var cmds []sess.MyPacket
			for _, p := range ex.Cmds {
				cmds = append(cmds, sess.MyPacket{Seq: 0, Payload: p})
			}
			var answer [][]byte
			switch {
			case ex.Slot && an != nil:
				answer = an.Build(c.DeprecateEOF, g)
			case ex.Fixed != nil:
				answer = ex.Fixed(c.DeprecateEOF)
			}
			res, err := s.Step(cmds, func([]sess.MyPacket) []sess.MyPacket { return sess.MySeq(1, answer...) })
			r.Transitions(1)
			if errors.Is(err, sess.ErrMalformed) {
				return fail(i, "malformed", "exchange %d of %s: %v", xi, g.Name, err)
			}
			if err != nil {
				ev.Fatalf("mysql relay %+v: %v", c, err)
			}
			if p := s.PanicList(); len(p) > 0 {
				return fail(i, "panic", "exchange %d of %s: proxy goroutine panicked: %v", xi, g.Name, p)
			}
			// byte identity of this exchange, both directions (checked before the termination
			// verdict so that a wrong byte is reported as such)
			if !bytes.Equal(res.DBRaw, res.ClientSentRaw) {
				return fail(i, "client-to-database-differs", "exchange %d of %s: the database end received %d bytes, the client wrote %d; first difference at offset %d (%s); terminated=%v proxy errors %v", xi, g.Name, len(res.DBRaw), len(res.ClientSentRaw), firstDiff(res.DBRaw, res.ClientSentRaw), around(res.DBRaw, res.ClientSentRaw), res.Terminated, s.ProxyErrorList())
			}
			if !bytes.Equal(res.ClientRaw, res.DBSentRaw) {
				what := "database-to-client-differs"
				if res.Terminated {
					what = "terminated"
				}
				return fail(i, what, "exchange %d of %s: the client end received %d bytes, the database wrote %d; first difference at offset %d (%s); terminated=%v proxy errors %v", xi, g.Name, len(res.ClientRaw), len(res.DBSentRaw), firstDiff(res.ClientRaw, res.DBSentRaw), around(res.ClientRaw, res.DBSentRaw), res.Terminated, s.ProxyErrorList())
			}
			if res.Terminated && !(g.Quits && xi == len(g.Exs)-1) {
				return fail(i, "terminated", "exchange %d of %s: the proxy closed the session while relaying: %v", xi, g.Name, s.ProxyErrorList())
			}
			if res.Terminated {
				outcome = "identical-then-closed-on-quit"
				break
			}
		}
		if outcome != "identical" {
			break
		}
	}
	// whole-stream identity, hand-shake included (see the header comment: nothing is excluded)
	if up, sent := s.DBEnd.Received(), s.ClientEnd.Sent(); !bytes.Equal(up, sent) {
		return fail(len(c.Steps)-1, "client-to-database-stream-differs", "whole stream: first difference at offset %d of %d/%d", firstDiff(up, sent), len(up), len(sent))
	}
	if down, sent := s.ClientEnd.Received(), s.DBEnd.Sent(); !bytes.Equal(down, sent) {
		return fail(len(c.Steps)-1, "database-to-client-stream-differs", "whole stream: first difference at offset %d of %d/%d", firstDiff(down, sent), len(down), len(sent))
	}
	r.Eval(1)
	r.Traces(1)
	var gs, as []string
	for _, st := range c.Steps {
		gs = append(gs, classOf(st.Group))
		as = append(as, classOf(st.Answer))
	}
	r.Distinct("mysql-relay|" + modeName(c.DeprecateEOF) + "|" + strings.Join(gs, "+") + "|" + strings.Join(as, "+") + "|" + outcome)
	r.Class("mysql-relay-"+outcome, 1)
	return true
}

// emit turns the collected failures into violations: one key per (where, failure), with the EOF
// mode in the key only when the other mode does not fail there.
func (m *myRelay) emit() {
	modes := map[string]map[bool]bool{}
	for _, f := range m.fails {
		if modes[f.Where] == nil {
			modes[f.Where] = map[bool]bool{}
		}
		modes[f.Where][f.Case.DeprecateEOF] = true
	}
	sort.SliceStable(m.fails, func(i, j int) bool {
		a, b := m.fails[i], m.fails[j]
		if a.Where != b.Where {
			return a.Where < b.Where
		}
		if len(a.Case.Steps) != len(b.Case.Steps) {
			return len(a.Case.Steps) < len(b.Case.Steps)
		}
		return fmt.Sprint(a.Case) < fmt.Sprint(b.Case)
	})
	for _, f := range m.fails {
		mode := "both-eof-modes"
		if len(modes[f.Where]) == 1 {
			mode = modeName(f.Case.DeprecateEOF)
		}
		m.r.Violation("C12/mysql/relay/"+mode+"/"+f.Where, f.Msg, f.Case)
		m.r.Class("mysql-relay-failed", 1)
	}
}

func around(a, b []byte) string {
	d := firstDiff(a, b)
	cut := func(x []byte) string {
		lo, hi := d-4, d+8
		if lo < 0 {
			lo = 0
		}
		if hi > len(x) {
			hi = len(x)
		}
		if lo > hi {
			lo = hi
		}
		return fmt.Sprintf("%x", x[lo:hi])
	}
	return "got .." + cut(a) + ".. want .." + cut(b) + ".."
}

func seqKey(dep bool, steps []myRelayStep) string {
	k := modeName(dep)
	for _, st := range steps {
		k += "|" + st.Group + ">" + st.Answer
	}
	return k
}

// containsFailing reports whether a contiguous part of steps is known to fail on its own.
func (m *myRelay) containsFailing(dep bool, steps []myRelayStep) bool {
	for i := range steps {
		for j := i + 1; j <= len(steps); j++ {
			if (i > 0 || j < len(steps)) && m.failed[seqKey(dep, steps[i:j])] {
				return true
			}
		}
	}
	return false
}

func relayPart(r *ev.Run, env *sess.MyEnv, thorough bool, replay *myRelayCase) {
	gs, as := myGroups(thorough), myAnswers(thorough)
	m := &myRelay{r: r, env: env, groups: map[string]*myGroup{}, answ: map[string]*myAnswer{}, failed: map[string]bool{}}
	for i := range gs {
		if m.groups[gs[i].Name] != nil {
			ev.Fatalf("duplicate group %s", gs[i].Name)
		}
		m.groups[gs[i].Name] = &gs[i]
	}
	for i := range as {
		if m.answ[as[i].Name] != nil {
			ev.Fatalf("duplicate answer %s", as[i].Name)
		}
		m.answ[as[i].Name] = &as[i]
	}
	if replay != nil {
		m.run(*replay)
		m.emit()
		return
	}
	// Length 1. The request path of the proxy depends on the command, the response path on the
	// command KIND and the answer. Elements: (every group x one answer per compatible answer
	// category) + (the first two groups of every kind x every compatible answer).
	var elems []myRelayStep
	seenElem := map[myRelayStep]bool{}
	add := func(e myRelayStep) {
		if !seenElem[e] {
			seenElem[e] = true
			elems = append(elems, e)
		}
	}
	kindCount := map[string]int{}
	for i := range gs {
		g := &gs[i]
		if g.Kind == "none" {
			add(myRelayStep{Group: g.Name})
			continue
		}
		kindCount[g.Kind]++
		cats := map[string]bool{}
		n := 0
		for j := range as {
			if !fits(g, &as[j]) {
				continue
			}
			n++
			if kindCount[g.Kind] <= 2 || !cats[as[j].cat()] {
				add(myRelayStep{Group: g.Name, Answer: as[j].Name})
			}
			cats[as[j].cat()] = true
		}
		if n == 0 {
			ev.Fatalf("group %s has no compatible answer", g.Name)
		}
	}
	var jobs []myRelayCase
	for _, dep := range []bool{false, true} {
		for _, e := range elems {
			jobs = append(jobs, myRelayCase{Part: "mysql-relay", DeprecateEOF: dep, Steps: []myRelayStep{e}})
		}
	}
	singles := len(jobs)
	done := par.Do(len(jobs), r.Expired, func(i int) { m.run(jobs[i]) })
	if done < len(jobs) {
		r.Capped(fmt.Sprintf("mysql relay: %d of %d single-step sessions", done, len(jobs)))
	}
	r.States(len(jobs))
	// Length 2 (thorough: 3): one representative per (coarse group class, answer category) - value
	// shapes were covered by length 1 - in every order. A sequence that contains a shorter sequence
	// already known to fail in that mode is left out (its verdict is that of the shorter one:
	// minimal keys).
	var reps []myRelayStep
	seen := map[string]bool{}
	for _, e := range elems {
		g := m.groups[e.Group]
		k := g.pairClass() + "|"
		if e.Answer != "" {
			k += m.answ[e.Answer].cat()
		}
		if seen[k] || g.Quits {
			continue
		}
		seen[k] = true
		reps = append(reps, e)
	}
	skipped := 0
	counts := map[int]int{}
	maxLen := 2
	if thorough {
		maxLen = 3
	}
	total := 0
	for n := 2; n <= maxLen; n++ { // one round per length: a round knows what failed in the shorter ones
		jobs = nil
		for _, dep := range []bool{false, true} {
			idx := make([]int, n)
			for {
				steps := make([]myRelayStep, n)
				for k, x := range idx {
					steps[k] = reps[x]
				}
				if m.containsFailing(dep, steps) {
					skipped++
				} else {
					jobs = append(jobs, myRelayCase{Part: "mysql-relay", DeprecateEOF: dep, Steps: steps})
					counts[n]++
				}
				k := n - 1
				for k >= 0 {
					idx[k]++
					if idx[k] < len(reps) {
						break
					}
					idx[k] = 0
					k--
				}
				if k < 0 {
					break
				}
			}
		}
		done = par.Do(len(jobs), r.Expired, func(i int) { m.run(jobs[i]) })
		if done < len(jobs) {
			r.Capped(fmt.Sprintf("mysql relay: %d of %d sessions of length %d", done, len(jobs), n))
		}
		total += len(jobs)
		if len(jobs) > 0 && n == 2 {
			r.Sample(jobs[len(jobs)/3])
		}
	}
	r.States(total)
	m.emit()
	r.Set("mysql_relay_groups", len(gs))
	r.Set("mysql_relay_answers", len(as))
	r.Set("mysql_relay_single_sessions", singles)
	r.Set("mysql_relay_representatives", len(reps))
	r.Set("mysql_relay_pair_sessions", counts[2])
	r.Set("mysql_relay_triple_sessions", counts[3])
	r.Set("mysql_relay_sequences_left_out_containing_a_failing_shorter_one", skipped)
}

// ---- entry points ----------------------------------------------------------------------------------------

const mySchemaQuick = `
schemas:
  - table: t
    columns: [id, plain, c, d]
    encrypted:
      - column: c
        crypto_envelope: acrablock
      - column: d
        crypto_envelope: acrastruct
  - table: ty
    columns: [id, plain, s, i, b]
    encrypted:
      - column: s
        data_type: str
      - column: i
        data_type: int32
      - column: b
        data_type: bytes
`

type myPartHeader struct {
	Part string `json:"part"`
}

// mysqlReplay re-executes a MySQL replay file; false when the file belongs to a PostgreSQL part.
func mysqlReplay(r *ev.Run, ks *filesystem.KeyStore, thorough bool) bool {
	var h myPartHeader
	r.LoadReplay(&h)
	if !strings.HasPrefix(h.Part, "mysql-") {
		return false
	}
	switch h.Part {
	case "mysql-all": // developer shortcut: {"replay":{"part":"mysql-all"}} runs the MySQL half alone
		mysqlPart(r, ks, thorough)
	case "mysql-relay":
		env := myEnv(ks, mySchemaQuick)
		var c myRelayCase
		r.LoadReplay(&c)
		relayPart(r, env, true, &c)
	case "mysql-rewrite":
		var c myRewriteCase
		r.LoadReplay(&c)
		yaml := mySchemaQuick
		if c.Schema == "thorough" {
			yaml = mySchemaThorough
		}
		(&myRewrite{r: r, env: myEnv(ks, yaml)}).run(c)
	case "mysql-handshake":
		var c myHandshakeCase
		r.LoadReplay(&c)
		handshakeCase(r, myEnv(ks, mySchemaQuick), c)
	case "mysql-codec":
		var c myCodecCase
		r.LoadReplay(&c)
		codecCase(r, c)
	default:
		ev.Fatalf("unknown replay part %q", h.Part)
	}
	return true
}

func myEnv(ks *filesystem.KeyStore, yaml string) *sess.MyEnv {
	env, err := sess.NewMyEnv(ks, sess.MyEnvOptions{EncryptorConfigYAML: yaml})
	if err != nil {
		ev.Fatalf("mysql env: %v", err)
	}
	return env
}

// mysqlPart runs the MySQL half of C12. It must run after every PostgreSQL part: NewMyEnv
// switches the process-wide default SQL dialect to MySQL.
func mysqlPart(r *ev.Run, ks *filesystem.KeyStore, thorough bool) {
	env := myEnv(ks, mySchemaQuick)
	relayPart(r, env, thorough, nil)
	handshakePart(r, env)
	rewritePartMy(r, env, "quick", []string{"t", "ty"}, thorough)
	if thorough {
		// tokenization and masking change the processor chain of the whole proxy: own environment
		rewritePartMy(r, myEnv(ks, mySchemaThorough), "thorough", []string{"tm"}, thorough)
	}
	myCodecPart(r, thorough)
	r.Set("mysql_rule", "relay: state = one session from a fresh connection (scripted hand-shake, then client command groups each answered by a scripted backend answer), run with and without CLIENT_DEPRECATE_EOF; length 1: every group x one answer per compatible answer category + the first two groups of every command kind x every compatible answer; length 2 (thorough: 3): every ordered sequence of one representative per (coarse group class, answer category), representatives that fail alone left out; oracle = byte identity of both directed streams per exchange and over the whole session, hand-shake included. rewrite: one session per (table, way of writing, value shape, EOF mode): INSERT, then every select list x {text, binary}; scripted database serves back what reached it. codecs: every boundary value x every truncation. distinct_nontrivial = distinct (part, mode, group/answer classes or shape, outcome)")
	r.Assume("MySQL: classic protocol 4.1 without TLS and without compression; payloads below 0xFFFFFF bytes (no continuation packets); LOCAL INFILE, COM_FIELD_LIST, COM_CHANGE_USER, replication commands and authentication-method switching are not in the relay alphabet",
		"MySQL: independent codec = verif/sess/mycodec.go (written from the protocol documentation)",
		"MySQL: lock-step delivery by proxy quiescence (both pumps asleep on empty buffers), no barrier packets")
}

var _ = sort.Strings
