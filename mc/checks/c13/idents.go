package main

import (
	"fmt"
	"strings"
	"sync/atomic"

	"github.com/cossacklabs/acra/sqlparser"

	"verif/par"
	"verif/sqlgen"
)

// Phase "idents": quoted identifiers over a menu of hostile byte strings in every
// identifier position of the grammar. The tokenizer reads identifiers byte-wise; a printer
// that is not byte-exact (re-encodes, re-cases, forgets to double a quote character) sends a
// statement that names another column / table / alias.
// Oracle: the round-trip oracle of the other phases (Parse, String, Parse: structurally
// equal trees - the comparison compares the identifier's bytes and its quote byte, see
// sqlgen/compare.go - and printing is a fixpoint) and, independently of Acra's tokenizer, the
// quoted identifiers read from the received text and from the sent text by a lexer of a
// dozen lines (identLex) are the same byte strings with the same multiplicities.

type identEntry struct {
	Name string
	Raw  string
}

func identMenu() []identEntry {
	return []identEntry{
		{"lone-0xf1", "a\xf1o"},
		{"lone-0xff", "\xff"},
		{"lone-continuation-byte", "\x80a"},
		{"truncated-multibyte", "a\xe2\x82"},
		{"truncated-multibyte-then-ascii", "\xe2\x82z"},
		{"overlong-encoding", "\xc0\xaf"},
		{"valid-2-and-3-byte-utf8", "\xc3\xa9\xe2\x82\xac"},
		{"valid-4-byte-utf8", "x\xf0\x9f\x98\x80"},
		{"utf8-replacement-char", "a\xef\xbf\xbdo"},
		{"astral-rune-whose-low-16-bits-are-a-letter", "x\xf0\x90\x81\x81"}, // U+10041
		{"double-quote-inside", `a"b`},
		{"backtick-inside", "a`b"},
		{"single-quote-inside", "a'b"},
		{"only-quote-chars", "\"`'"},
		{"space", "a b"},
		{"leading-trailing-space", " ab "},
		{"dot", "a.b"},
		{"backslash", `a\b`},
		{"trailing-backslash", `ab\`},
		{"backslash-n", `a\nb`},
		{"upper-case", "AbC"},
		{"upper-case-keyword", "SELECT"},
		{"lower-case-keyword", "from"},
		{"question-mark", "a?b"},
		{"dollar-digit", "a$1"},
		{"colon-name", ":v1"},
		{"comment-dashes", "a--b"},
		{"comment-slash-star", "a/*b*/"},
		{"percent-underscore", "a%_b"},
		{"tab", "a\tb"},
		{"digits-first", "1a"},
		{"semicolon", "a;b"},
	}
}

type identStyle struct {
	Name  string
	Quote byte
}

// quote styles: PostgreSQL / ANSI double quotes, MySQL backticks, and the string-quoted
// alias forms of MySQL ('..' and ".." are accepted as aliases).
func identStyles() []identStyle {
	return []identStyle{{"double-quoted", '"'}, {"backtick", '`'}, {"single-quoted-alias-form", '\''}}
}

func (s identStyle) quote(raw string) string {
	q := string(s.Quote)
	return q + strings.ReplaceAll(raw, q, q+q) + q
}

// identTemplates: {} is the identifier under test (the same one in every hole), one
// template per identifier position of the grammar's nodes: column, qualified column,
// qualifier (table, alias, database), table, table alias with/without AS, column alias
// with/without AS, derived-table alias, function name, qualified function name, star
// qualifier, USING column, index hint, partition, INSERT table / column list / ON DUPLICATE
// KEY target / RETURNING (with alias), UPDATE table / alias / SET target (qualified or not) /
// FROM, DELETE table / targets, ORDER BY / GROUP BY / HAVING, columns inside the special
// expression nodes (substr, match, group_concat, values(), json arrows, collate, convert).
func identTemplates() []string {
	return []string{
		"select {} from t",
		"select t.{} from t",
		"select {}.a from {}",
		"select {}.t.a from {}.t",
		"select db.{}.a from db.{}",
		"select a from {}",
		"select a from db.{}",
		"select x.a from t as {} where {}.a = 1",
		"select a from t {}",
		"select a as {} from t",
		"select a {} from t",
		"select a as {}, b as {} from t order by {}",
		"select s.a from (select a from u) as {}",
		"select {}.* from {}",
		"select {}(a) from t",
		"select db.{}(a, 1) from t",
		"select a from t where {} = 1",
		"select a from t where {} = {}",
		"select a from t where t.{} in (1, 2) and {} is null",
		"select a from t where {} between 1 and 2 or {} like 'x'",
		"select a from t order by {} desc",
		"select a from t group by {} having {} > 1",
		"select count(distinct {}) from t",
		"select a from t join u using ({})",
		"select a from t join u on t.{} = u.{}",
		"select a from t left join {} on t.a = {}.a",
		"select a from t join u as {} on t.a = {}.a",
		"select a from t use index ({})",
		"select a from t partition ({})",
		"select substr({}, 1, 33) from t",
		"select a from t where substr(t.{}, 1, 33) = 'x'",
		"select a from t where match({}) against ('x')",
		"select group_concat({} order by {}) from t",
		"select {}->'$.k' from t",
		"select a collate {} from t",
		"select case {} when 1 then {} else {} end from t",
		"select (select {} from u where u.{} = t.{}) from t",
		"select a from t where exists (select 1 from {} where {}.a = 1)",
		"select a from t union select {} from {}",
		"select a from t where a = 1 for update",
		"insert into {} (a) values (1)",
		"insert into t ({}, b) values (1, 2)",
		"insert into t ({}) values (1) on duplicate key update {} = 2",
		"insert into t ({}) values (1) on duplicate key update {} = values({})",
		"insert into t (a) values (1) returning {}",
		"insert into t (a) values (1) returning {} as {}",
		"insert into t ({}) select {} from u",
		"insert into t set {} = 1",
		"replace into {} ({}) values (1)",
		"update {} set a = 1",
		"update t set {} = 1 where {} = 2",
		"update t set t.{} = 1",
		"update t as {} set {}.a = 1 where {}.b = 2",
		"update t set a = 1 from {} where {}.a = t.a returning {}",
		"update t join {} on t.a = {}.a set t.b = 1",
		"update t set a = {} + 1 order by {} limit 1",
		"delete from {}",
		"delete from t where {} = 1",
		"delete from t as {} where {}.a = 1",
		"delete {} from {} join u on {}.a = u.a",
		"delete from t where a = 1 returning {}",
		"delete from t order by {} limit 1",
	}
}

// identAliasTemplates: the positions in which MySQL also accepts a string-quoted alias
// ('..' always, ".." outside ANSI_QUOTES mode). Acra's grammar is more lenient and takes
// string-quoted tokens in other identifier positions too; MySQL itself rejects those
// statements, they are not part of the space.
func identAliasTemplates() []string {
	return []string{
		"select a as {} from t",
		"select a {} from t",
		"select a as {}, b as {} from t",
		"select count(*) as {} from t group by a",
		"select a from t as {}",
		"select a from t {}",
		"select s.a from (select a from u) as {}",
		"select a from t join u as {} on t.a = u.a",
		"insert into t (a) values (1) returning a as {}",
	}
}

// stringQuotedStyle: the style writes identifiers the way the dialect writes strings.
func stringQuotedStyle(st identStyle) bool {
	return st.Quote == '\'' || (st.Quote == '"' && sqlgen.Current == sqlgen.MySQL)
}

// bareable: MySQL identifiers that need no quotes (the printer drops backticks that are not
// needed; MySQL does not fold the case of unquoted identifiers, so nothing changes).
func bareable(raw string) bool {
	if raw == "" || (raw[0] >= '0' && raw[0] <= '9') {
		return false
	}
	for i := 0; i < len(raw); i++ {
		c := raw[i]
		if !(c == '_' || c == '$' || (c >= '0' && c <= '9') || (c >= 'a' && c <= 'z') || (c >= 'A' && c <= 'Z')) {
			return false
		}
	}
	return true
}

// pgBareable: PostgreSQL identifiers that mean the same without quotes: lower-case letters,
// digits and underscore, no leading digit (unquoted names are folded to lower case, so these are
// unchanged; a keyword among them cannot be printed bare without failing the round trip). The
// printer keeps the quotes of PostgreSQL identifiers wherever the AST records them; a collation
// name is a plain string in the AST and is printed with quotes only when it needs them.
func pgBareable(raw string) bool {
	if raw == "" || (raw[0] >= '0' && raw[0] <= '9') {
		return false
	}
	for i := 0; i < len(raw); i++ {
		c := raw[i]
		if !(c == '_' || (c >= '0' && c <= '9') || (c >= 'a' && c <= 'z')) {
			return false
		}
	}
	return true
}

// identPairTemplates: {1} and {2} are two different identifiers of the menu.
func identPairTemplates() []string {
	return []string{
		"select {1}.{2} from {1}",
		"select {2} as {1} from t",
		"select a from {1} as {2} where {2}.a = 1",
		"update {1} set {2} = 1",
		"insert into {1} ({2}) values (1)",
	}
}

// identLex reads the quoted identifiers of a text in one pass: a token opened by one of the
// bytes in idQuotes is an identifier (embedded quote doubled), a token opened by one of the
// bytes in strQuotes is a string (quote doubled, backslash escapes the next byte) and is
// skipped.
func identLex(text string, idQuotes, strQuotes string) []string {
	var out []string
	for i := 0; i < len(text); i++ {
		c := text[i]
		isID, isStr := strings.IndexByte(idQuotes, c) >= 0, strings.IndexByte(strQuotes, c) >= 0
		if !isID && !isStr {
			continue
		}
		var b []byte
		i++
		for i < len(text) {
			if isStr && text[i] == '\\' && i+1 < len(text) {
				i += 2
				continue
			}
			if text[i] == c {
				if i+1 < len(text) && text[i+1] == c {
					b = append(b, c)
					i += 2
					continue
				}
				break
			}
			b = append(b, text[i])
			i++
		}
		if isID {
			out = append(out, string(b))
		}
	}
	return out
}

// identQuoteSets: which quote bytes open identifiers / strings in the installed dialect.
func identQuoteSets() (idQuotes, strQuotes string) {
	if sqlgen.Current == sqlgen.MySQL {
		return "`", "'\""
	}
	return "`\"", "'"
}

// identBytesCheck: every quoted identifier of the received text (read by identLex) occurs in
// the sent text as often as in the received one. In the MySQL dialects an identifier that
// needs no quotes may be printed without them.
func identBytesCheck(col *sqlgen.Collector, c caseT, sent string) string {
	col.Eval(1)
	// (the printer may choose the dialect's own identifier quote: ANSI mode prints a backtick
	// identifier in double quotes; identLex reads both kinds)
	idq, strq := identQuoteSets()
	recv, got := identLex(c.SQL, idq, strq), identLex(sent, idq, strq)
	seen := map[string]bool{}
	for _, raw := range recv {
		if seen[raw] || (sqlgen.IsMySQL() && bareable(raw)) || (!sqlgen.IsMySQL() && pgBareable(raw) && count(got, raw) < count(recv, raw)) {
			continue
		}
		seen[raw] = true
		if n, m := count(recv, raw), count(got, raw); n != m {
			style := "double-quoted"
			if strings.Contains(c.SQL, "`") {
				style = "backtick"
			}
			col.Violation("C13/idents/identifier-bytes-altered/"+style,
				fmt.Sprintf("[%s] a quoted identifier reaches the database with other bytes: received %q, sent %q; identifier %q occurs %d times in the received and %d times in the sent text (quoted identifiers read: %q vs %q)",
					c.Dialect, c.SQL, sent, raw, n, m, recv, got), c)
			return "tree-differs"
		}
	}
	return oOK
}

// identsOracle evaluates one statement of the identifier phase: (1) MySQL dialects: no quoted
// identifier of the received text that needs its quotes stands in the sent text without them
// (printedBareCheck; a failure is also noted in the keys of what the round trip reports for
// the same statement: the AST does not record that a name was quoted, so e.g. `@a` and the
// variable @a are one tree and the round trip of such a statement fails in ways that are
// consequences); (2) the round trip; (3) lex: the quoted identifiers of both texts are the same
// byte strings.
func identsOracle(col *sqlgen.Collector, c caseT, lex bool) (out string, t sqlparser.Statement, sent string, compared bool) {
	out, t = parseDML(col, c)
	if t == nil {
		return out, nil, "", false
	}
	col.Transitions(1)
	sent, pp := sqlgen.Print(t)
	if pp == "" && sqlgen.IsMySQL() {
		c.note = printedBareCheck(col, c, sent)
	}
	out = roundTripParsed(col, c, t) // (reports a printer panic)
	if out == oOK && c.note != "" {
		return "identifier-printed-bare", t, sent, false
	}
	if out == oOK && lex {
		return identBytesCheck(col, c, sent), t, sent, true
	}
	return out, t, sent, false
}

// printedBareCheck: every quoted identifier of the received text (read by identLex) that MySQL
// does not read as one name without quotes must not have moved out of its quotes in the sent
// text: fewer quoted occurrences and more occurrences outside quoted tokens than in the
// received text. Returns the class of the first failure ("" when there is none).
func printedBareCheck(col *sqlgen.Collector, c caseT, sent string) string {
	col.Eval(1)
	idq, strq := identQuoteSets()
	recv, got := identLex(c.SQL, idq, strq), identLex(sent, idq, strq)
	recvBare, sentBare := blankQuoted(c.SQL, idq, strq), blankQuoted(sent, idq, strq)
	note := ""
	seen := map[string]bool{}
	for _, raw := range recv {
		if seen[raw] || bareable(raw) {
			continue
		}
		seen[raw] = true
		if count(got, raw) >= count(recv, raw) || strings.Count(sentBare, raw) <= strings.Count(recvBare, raw) {
			continue
		}
		cls := printedBareClass(raw)
		// one key per character that needs the quotes and its place in the name (leading or not),
		// whatever the quote style and the identifier position
		col.Violation("C13/idents/quoted-identifier-printed-bare/"+cls,
			fmt.Sprintf("[%s] an identifier that needs quotes reaches the database without them: received %q, sent %q; MySQL reads unquoted names over [0-9a-zA-Z$_] and bytes >= 0x80 only, %q is not one name for it (quoted identifiers read: %q vs %q)",
				c.Dialect, c.SQL, sent, raw, recv, got), c)
		if note == "" {
			note = cls
		}
	}
	return note
}

type identJob struct {
	sql   string
	style identStyle
	raws  []string
	tmpl  int
	pair  bool
	entry string
	// alphabet menu (idents_alphabet.go): place of the character in the name, name of the character
	alpha bool
	shape string
	char  string
}

func identJobs(thorough bool) []identJob {
	var jobs []identJob
	menu, styles := identMenu(), identStyles()
	for ti, t := range identTemplates() {
		for _, st := range styles {
			if stringQuotedStyle(st) {
				continue
			}
			for _, e := range menu {
				jobs = append(jobs, identJob{sql: strings.ReplaceAll(t, "{}", st.quote(e.Raw)), style: st, raws: []string{e.Raw}, tmpl: ti, entry: e.Name})
			}
		}
	}
	for ti, t := range identAliasTemplates() {
		for _, st := range styles {
			if !stringQuotedStyle(st) {
				continue
			}
			for _, e := range menu {
				jobs = append(jobs, identJob{sql: strings.ReplaceAll(t, "{}", st.quote(e.Raw)), style: st, raws: []string{e.Raw}, tmpl: 1000 + ti, entry: e.Name})
			}
		}
	}
	// the alphabet menu, single identifiers (both tiers): before the pairs, so that a wall-budget
	// cap can only cut pairs
	jobs = append(jobs, alphabetJobs(thorough)...)
	for ti, t := range identPairTemplates() {
		for _, st := range styles {
			if stringQuotedStyle(st) {
				continue
			}
			for i, a := range menu {
				for j, b := range menu {
					if i == j || (!thorough && (i+j)%3 != 0 && i > 5 && j > 5) {
						continue
					}
					sql := strings.ReplaceAll(strings.ReplaceAll(t, "{1}", st.quote(a.Raw)), "{2}", st.quote(b.Raw))
					jobs = append(jobs, identJob{sql: sql, style: st, raws: []string{a.Raw, b.Raw}, tmpl: ti, pair: true, entry: a.Name + "+" + b.Name})
				}
			}
		}
	}
	if thorough {
		jobs = append(jobs, alphabetThoroughJobs()...)
	}
	return jobs
}

// runIdents runs the phase; it returns some accepted statements to join the corpus of the
// splice and substitution phases (hosts and donors with hostile identifiers).
func runIdents(expired func() bool, thorough bool, col *sqlgen.Collector) []string {
	d := sqlgen.Current
	jobs := identJobs(thorough)
	col.Info("idents_menu", len(identMenu()))
	col.Info("idents_templates", len(identTemplates()))
	col.Info("idents_string_quoted_alias_templates", len(identAliasTemplates()))
	col.Info("idents_pair_templates", len(identPairTemplates()))
	col.Info("idents_generated", len(jobs))
	nAlpha := 0
	for _, j := range jobs {
		if j.alpha {
			nAlpha++
		}
	}
	col.Info("idents_alphabet_characters", len(punctAlphabet()))
	if thorough {
		col.Info("idents_alphabet_shapes", len(alphaShapes()))
	} else {
		col.Info("idents_alphabet_shapes", alphaQuickShapes)
	}
	col.Info("idents_alphabet_generated", nAlpha)
	tl := newTally()
	res := make([]string, len(jobs))
	var lexed atomic.Int64
	done := par.Do(len(jobs), expired, func(i int) {
		j := jobs[i]
		c := caseT{Dialect: d, Kind: "idents", SQL: j.sql}
		// (independent reading of the identifier bytes: not for the string-quoted alias forms - in
		// the MySQL dialects string-quoted tokens are compared by databaseReading, in PostgreSQL
		// '..' is never an identifier)
		out, t, sent, compared := identsOracle(col, c, !stringQuotedStyle(j.style))
		if compared {
			lexed.Add(1)
		}
		if t != nil && out == oOK {
			observe(col, d, t, out)
			if out == oOK && j.alpha {
				// alphabet menu: the observation is how the name was written in the sent text, per
				// (identifier position, quote style, place of the character) and per (character, place,
				// quote style) - not one observation per statement
				form := "quoted"
				idq, strq := identQuoteSets()
				if stringQuotedStyle(j.style) {
					idq, strq = idq+strq, ""
				}
				if l := identLex(sent, idq, strq); count(l, j.raws[0]) == 0 {
					form = "bare"
				}
				col.Distinct(fmt.Sprintf("%s|idents-alphabet|template %d pair=%v|%s|%s|%s", d, j.tmpl, j.pair, j.style.Name, j.shape, form))
				col.Distinct(fmt.Sprintf("%s|idents-alphabet|%s|%s|%s|%s", d, j.char, j.shape, j.style.Name, form))
			} else if out == oOK {
				col.Distinct(fmt.Sprintf("%s|idents|template %d pair=%v|%s|%s", d, j.tmpl, j.pair, j.style.Name, j.entry))
			}
		}
		res[i] = out
		tl.add(out)
	})
	acc := tl.flush(col, "idents")
	var accAlpha int
	for i, j := range jobs {
		if j.alpha && res[i] != oRejected && res[i] != oNonDML && res[i] != "" && res[i] != "parse-panic" {
			accAlpha++
		}
	}
	col.Info("idents_alphabet_accepted", accAlpha)
	col.States(int(acc))
	col.Info("idents_accepted", acc)
	col.Info("idents_identifier_bytes_compared", lexed.Load())
	if done < len(jobs) {
		col.Capped(fmt.Sprintf("wall budget: identifier phase stopped after %d of %d statements", done, len(jobs)))
	}
	// per (template, style): how many menu entries were accepted; per template: accepted in any style
	perTmpl := map[int]int{}
	var corpus []string
	seenTmpl := map[string]bool{}
	for i, j := range jobs {
		if res[i] == oRejected || res[i] == oNonDML || res[i] == "" {
			continue
		}
		if !j.pair {
			perTmpl[j.tmpl]++
			// corpus: per template the first accepted statement of two menu entries
			if res[i] == oOK && (j.entry == "lone-0xf1" || j.entry == "only-quote-chars") {
				k := fmt.Sprintf("%d/%s", j.tmpl, j.entry)
				if !seenTmpl[k] && len(corpus) < 40 && j.tmpl%3 == 0 {
					seenTmpl[k] = true
					corpus = append(corpus, j.sql)
				}
			}
		}
	}
	var never []int
	for ti := range identTemplates() {
		if perTmpl[ti] == 0 {
			never = append(never, ti)
		}
	}
	col.Info("idents_templates_never_accepted", never)
	if acc > 0 {
		for i, j := range jobs {
			if res[i] == oOK && j.entry == "lone-0xf1" {
				col.Sample(caseT{Dialect: d, Kind: "idents", SQL: j.sql})
				break
			}
		}
	}
	return corpus
}

func count(l []string, x string) int {
	n := 0
	for _, y := range l {
		if y == x {
			n++
		}
	}
	return n
}
