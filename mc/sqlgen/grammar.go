package sqlgen

import (
	"strings"
)

// A compact DML grammar. It produces statement TEXTS; whether a text belongs to the space is
// decided by the parser under test ("only statements the parser accepts count"), so
// dialect-specific alternatives are simply offered to every dialect.
//
//	Stmt  ::= one of the statement skeletons (Skeletons: all combinations of optional clauses)
//	        | Context[ Expr ]                (Contexts: every kind of expression slot of a statement)
//	Expr  ::= Atom
//	        | Form[ Expr at ONE operand position, Atom at the others ]        (operator chains)
//	        | Form[ Expr1 at EVERY operand position ]  with Expr1 of depth <= 1  (full trees, depth 2)
//
// Depth of an Expr = number of nested Forms. "Chains" keep the grammar linear so that ALL its
// derivations up to depth 3/4 can be enumerated; precedence/associativity interactions between
// a parent operator and a child operator at a given operand position - what a printer without
// automatic parentheses can get wrong - are all chains of length 2, longer chains add
// grand-parent context.

// Form is an operator/function template: Parts[0] H Parts[1] H ... Parts[n].
type Form struct {
	Name  string
	Parts []string
	Core  bool // member of the reduced set used for the deepest chains (one per precedence/syntactic class)
}

func (f Form) Holes() int { return len(f.Parts) - 1 }

func fm(core bool, name string, parts ...string) Form {
	return Form{Name: name, Parts: parts, Core: core}
}

// Forms lists every expression form of the grammar.
func Forms() []Form {
	return []Form{
		// logic
		fm(true, "or", "", " or ", ""),
		fm(true, "and", "", " and ", ""),
		fm(true, "not", "not ", ""),
		fm(true, "is-null", "", " is null"),
		fm(false, "is-not-true", "", " is not true"),
		fm(false, "is-false", "", " is false"),
		// comparison
		fm(true, "eq", "", " = ", ""),
		fm(false, "lt", "", " < ", ""),
		fm(false, "ge", "", " >= ", ""),
		fm(false, "ne", "", " != ", ""),
		fm(false, "ne2", "", " <> ", ""),
		fm(false, "nullsafe-eq", "", " <=> ", ""),
		fm(true, "in", "", " in (", ", ", ")"),
		fm(false, "not-in", "", " not in (", ")"),
		fm(false, "in-subquery", "", " in (select b from u where ", ")"),
		fm(true, "like", "", " like ", ""),
		fm(false, "not-like-escape", "", " not like ", " escape ", ""),
		fm(false, "ilike", "", " ilike ", ""),
		fm(false, "regexp", "", " regexp ", ""),
		fm(true, "between", "", " between ", " and ", ""),
		fm(false, "not-between", "", " not between ", " and ", ""),
		fm(false, "exists", "exists (select 1 from u where ", ")"),
		// arithmetic / bit
		fm(true, "plus", "", " + ", ""),
		fm(true, "minus", "", " - ", ""),
		fm(true, "mult", "", " * ", ""),
		fm(false, "div", "", " / ", ""),
		fm(false, "intdiv", "", " div ", ""),
		fm(false, "mod", "", " % ", ""),
		fm(false, "mod-kw", "", " mod ", ""),
		fm(true, "bitor", "", " | ", ""),
		fm(true, "bitand", "", " & ", ""),
		fm(true, "xor", "", " ^ ", ""),
		fm(true, "shl", "", " << ", ""),
		fm(false, "shr", "", " >> ", ""),
		fm(true, "neg", "-", ""),
		fm(false, "pos", "+", ""),
		fm(true, "tilde", "~", ""),
		fm(true, "bang", "!", ""),
		fm(true, "binary", "binary ", ""),
		fm(false, "underscore-binary", "_binary ", ""),
		fm(true, "collate", "", " collate utf8_bin"),
		// calls
		fm(true, "func1", "lower(", ")"),
		fm(false, "func2", "coalesce(", ", ", ")"),
		fm(false, "func-distinct", "count(distinct ", ")"),
		fm(false, "func-qualified", "db.fn(", ")"),
		fm(false, "if", "if(", ", ", ", ", ")"),
		fm(false, "left", "left(", ", ", ")"),
		fm(false, "mod-func", "mod(", ", ", ")"),
		fm(false, "replace-func", "replace(", ", ", ", ", ")"),
		fm(false, "substr", "substr(a, ", ", ", ")"),
		fm(false, "substr-from-for", "substring(a from ", " for ", ")"),
		fm(true, "cast", "cast(", " as char)"),
		fm(false, "convert-type", "convert(", ", decimal(10, 2))"),
		fm(false, "convert-using", "convert(", " using utf8)"),
		fm(false, "group-concat", "group_concat(distinct ", " order by ", " desc separator ',')"),
		fm(false, "match", "match(a, b) against (", " in boolean mode)"),
		fm(true, "case", "case ", " when ", " then ", " else ", " end"),
		fm(false, "case-searched", "case when ", " then ", " end"),
		fm(true, "interval-mysql", "now() + interval ", " day"),
		fm(false, "interval-arg", "date_add(d, interval ", " hour)"),
		// grouping
		fm(true, "paren", "(", ")"),
		fm(false, "tuple", "(", ", ", ")"),
		fm(true, "subquery", "(select ", " from u)"),
		fm(false, "subquery-where", "(select max(b) from u where ", ")"),
	}
}

// CoreForms is the reduced set for the deepest chains.
func CoreForms() []Form {
	var out []Form
	for _, f := range Forms() {
		if f.Core {
			out = append(out, f)
		}
	}
	return out
}

// Atoms lists the leaf expressions: identifiers in every quoting style, literals in every
// spelling, placeholders of every kind, casts written with '::'.
func Atoms() []string {
	return []string{
		"a", "t.b", "db.t.c", "`q c`", "`select`", `"Q c"`, "@@session.x", "@uservar",
		"1", "0", "-2", "1.5", ".5", "2e3", "1.2e-1", "08.3",
		"'x'", "''", "'it''s'", `'q\'q'`, `'b\\s'`, `'n\nl'`, `'pc%_'`, `'\x41'`, `'ünï'`, `'50\%\_'`, `'a\x41'`, `'\q'`, `'\\x41'`,
		`"dq"`, `"d\"q"`, `"d""q"`, `"it's"`,
		`E'e\\s'`, `E'q\'q'`,
		"x'4142'", "X'4142'", "0x4142", "b'0101'",
		"?", "$1", ":named", "null", "true", "false",
		"'1'::int", "1::text::varchar", "$1::int", "'x'::character varying", "null::text",
		"interval '1 day'", "count(*)", "now()", "current_timestamp", "values(a)",
		"a->'$.k'", "a->>'$.k'",
	}
}

// Fillers are the atoms put at the operand positions that are not being expanded; they rotate
// so that every spelling meets every operator neighbourhood.
func Fillers() []string {
	return []string{"a", "1", "'x'", "t.b", "?", "1.5", "null", "-2", "'it''s'", "$1", ":named", "true", "2e3", `'b\\s'`}
}

// Context is one kind of expression slot of a statement.
type Context struct {
	Name      string
	Pre, Post string
}

// Contexts lists the statement positions an expression can occupy.
func Contexts() []Context {
	return []Context{
		{"where", "select a from t where ", ""},
		{"select-list", "select ", " from t"},
		{"select-alias", "select ", " as x, b from t"},
		{"group-by", "select a from t group by ", ""},
		{"having", "select a, count(*) from t group by a having ", ""},
		{"order-by", "select a from t order by ", " desc"},
		{"limit", "select a from t limit ", ""},
		{"offset", "select a from t limit 1 offset ", ""},
		{"limit-comma", "select a from t limit ", ", 1"},
		{"join-on", "select a from t join u on ", " where t.a = 1"},
		{"derived-table", "select c from (select ", " as c from u) as s"},
		{"union-rhs", "select a from t union select ", " from u"},
		{"insert-values", "insert into t (a, b) values (1, ", ")"},
		{"insert-multi-row", "insert into t (a, b) values (1, 'x'), (", ", 2)"},
		{"insert-select", "insert into t (a) select ", " from u"},
		{"insert-on-dup", "insert into t (a) values (1) on duplicate key update a = ", ""},
		{"insert-returning", "insert into t (a) values (1) returning ", ""},
		{"update-set", "update t set a = ", " where b = 1"},
		{"update-where", "update t set a = 1 where ", ""},
		{"update-from-where", "update t set a = 1 from u where ", " returning a"},
		{"delete-where", "delete from t where ", ""},
		{"delete-limit", "delete from t where a = 1 order by b limit ", ""},
	}
}

// ChainPositions flattens (form, operand position) pairs.
type ChainPos struct {
	Form int
	Hole int
}

func Positions(forms []Form) []ChainPos {
	var out []ChainPos
	for i, f := range forms {
		for h := 0; h < f.Holes(); h++ {
			out = append(out, ChainPos{i, h})
		}
	}
	return out
}

// ChainCount is the number of chains of exactly length k over p positions: p^k.
func ChainCount(p, k int) int {
	n := 1
	for i := 0; i < k; i++ {
		n *= p
	}
	return n
}

// Chain builds the idx-th chain of length k (idx in [0, p^k)): digit j of idx in base p
// selects the (form, hole) of level j; the innermost hole and all non-expanded holes get
// atoms from fill, chosen by a deterministic counter derived from idx so that the same index
// always gives the same text.
func Chain(forms []Form, pos []ChainPos, k, idx int, fill []string) string {
	p := len(pos)
	digits := make([]int, k)
	n := idx
	for j := 0; j < k; j++ {
		digits[j] = n % p
		n /= p
	}
	ctr := idx*7 + k
	next := func() string {
		ctr++
		return fill[ctr%len(fill)]
	}
	inner := next()
	for j := k - 1; j >= 0; j-- {
		cp := pos[digits[j]]
		f := forms[cp.Form]
		var sb strings.Builder
		for h := 0; h < f.Holes(); h++ {
			sb.WriteString(f.Parts[h])
			if h == cp.Hole {
				sb.WriteString(inner)
			} else {
				sb.WriteString(next())
			}
		}
		sb.WriteString(f.Parts[f.Holes()])
		inner = sb.String()
	}
	return inner
}

// Apply fills all holes of a form.
func (f Form) Apply(args ...string) string {
	var sb strings.Builder
	for h := 0; h < f.Holes(); h++ {
		sb.WriteString(f.Parts[h])
		sb.WriteString(args[h])
	}
	sb.WriteString(f.Parts[f.Holes()])
	return sb.String()
}

// FullTrees2 enumerates every tree of depth <= 2 over forms in which EVERY operand of the
// root is independently an atom (filler) or a depth-1 form over fillers. Forms with more than
// maxHoles operands are skipped at the root. The result is returned (it is small).
func FullTrees2(forms []Form, maxHoles int, fill []string) []string {
	// depth-1 expressions: every form over rotating fillers, plus two plain atoms
	var d1 []string
	ctr := 0
	nx := func() string { ctr++; return fill[ctr%len(fill)] }
	d1 = append(d1, "a", "1")
	for _, f := range forms {
		args := make([]string, f.Holes())
		for i := range args {
			args[i] = nx()
		}
		d1 = append(d1, f.Apply(args...))
	}
	var out []string
	for _, f := range forms {
		h := f.Holes()
		if h < 2 || h > maxHoles {
			continue
		}
		idx := make([]int, h)
		for {
			args := make([]string, h)
			for i := range args {
				args[i] = d1[idx[i]]
			}
			out = append(out, f.Apply(args...))
			i := 0
			for ; i < h; i++ {
				idx[i]++
				if idx[i] < len(d1) {
					break
				}
				idx[i] = 0
			}
			if i == h {
				break
			}
		}
	}
	return out
}

// product calls fn with every combination of one element per list.
func product(lists [][]string, fn func(parts []string)) {
	idx := make([]int, len(lists))
	parts := make([]string, len(lists))
	for {
		for i, l := range lists {
			parts[i] = l[idx[i]]
		}
		fn(parts)
		i := len(lists) - 1
		for ; i >= 0; i-- {
			idx[i]++
			if idx[i] < len(lists[i]) {
				break
			}
			idx[i] = 0
		}
		if i < 0 {
			return
		}
	}
}

// Skeletons enumerates every combination of the optional clauses of every statement kind.
// thorough adds the longer option lists.
func Skeletons(thorough bool) []string {
	var out []string
	add := func(lists ...[]string) {
		product(lists, func(p []string) { out = append(out, strings.Join(p, "")) })
	}
	opt := func(s ...string) []string { return append([]string{""}, s...) }

	selHead := []string{"select ", "select distinct ", "select sql_no_cache ", "select straight_join ", "select /* c */ "}
	selList := []string{"*", "a", "a as x", "t.*", "a, b", "count(*) as c", "a x"}
	from := []string{" from t", " from t as x", " from db.t", " from t, u", " from t join u on t.a = u.a", " from t left join u using (a)",
		" from t natural join u", " from (select a from u) as s", " from t join u on t.a = u.a join v on v.a = u.a"}
	if thorough {
		from = append(from, " from t x", " from (t, u)", " from t use index (i)", " from t partition (p0)", " from t right join u on t.a = u.a",
			" from t straight_join u on t.a = u.a", " from t inner join (u cross join v) on t.a = u.a", " from t as x force index (i, j)", " from t natural left join u", "")
	}
	where := opt(" where a = 1")
	group := opt(" group by a", " group by a, b")
	having := opt(" having count(*) > 1")
	order := opt(" order by a", " order by a desc, b asc", " order by a desc nulls last", " order by null", " order by rand()")
	limit := opt(" limit 1", " limit 1 offset 2", " limit 2, 1", " limit all", " limit all offset 1", " limit ?")
	lock := opt(" for update", " lock in share mode")
	if !thorough {
		selHead = selHead[:3]
		selList = selList[:5]
		order = order[:4]
		limit = limit[:5]
		lock = lock[:2]
	}
	add(selHead, selList, from, where, group, having, order, limit, lock)

	// unions
	sel := []string{"select a from t", "(select a from t)", "select a from t where a = 1", "(select a from t order by a limit 1)"}
	utype := []string{" union ", " union all ", " union distinct "}
	add(sel, utype, sel, opt(" order by a", " order by a desc"), opt(" limit 1", " limit 1 offset 2", " limit 2, 1"), opt(" for update"))
	add(sel, utype, sel[:2], utype, sel[:2], opt(" order by a"), opt(" limit 1"))

	// inserts
	action := []string{"insert ", "replace ", "insert ignore ", "insert /* c */ "}
	into := []string{"into t", "into db.t", "into t partition (p0)"}
	cols := opt("(a, b)", " (a, b)", "(t.a, b)")
	rows := []string{" values (1, 'x')", " values (1, 'x'), (2, 'y')", " values ()", " values (default, null)", " select a, b from u", " (select a, b from u)",
		" select a, b from u union select c, d from v", " values (1, 'x'), (), (3, 'z')"}
	ondup := opt(" on duplicate key update a = 1", " on duplicate key update a = values(a), b = b + 1")
	ret := opt(" returning a", " returning *", " returning a as x, b", " returning 1, null")
	add(action, into, cols, rows, ondup, ret)
	add(action, into, []string{" set a = 1", " set a = 1, b = 'x'", " set t.a = default"}, ondup)
	add(action, into, []string{" default values"})

	// updates
	utab := []string{"update t", "update t as x", "update t, u", "update t join u on t.a = u.a", "update /* c */ db.t"}
	set := []string{" set a = 1", " set a = 1, b = 'x'", " set t.a = t.a + 1", " set a = default"}
	ufrom := opt(" from u", " from u as y, v")
	add(utab, set, ufrom, where, opt(" order by a", " order by a desc"), opt(" limit 1"), ret)

	// deletes
	add([]string{"delete from t", "delete from t as x", "delete from db.t", "delete from t partition (p0)", "delete /* c */ from t"},
		where, opt(" order by a", " order by a desc"), opt(" limit 1"), ret)
	add([]string{"delete a from a join b on a.id = b.id", "delete a, b from a, b", "delete from a, b using a join b on a.id = b.id",
		"delete a from a left join b on a.id = b.id", "delete a.*, b.* from a, b"}, where, ret)
	return out
}
