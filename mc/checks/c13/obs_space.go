package main

import (
	"fmt"
	"strings"

	"verif/sqlgen"
)

// The statement space of the "observers" phase. Every statement is generated together with
// the oracle's own description of it (obsDesc): which column references of the statement are
// searchable / consistently tokenized / protected according to the configuration the phase
// wrote itself (obs_env.go), and which value positions are assigned to a protected column.
// The description never comes from Acra's own resolution code.

// obsDesc is part of the replay payload.
type obsDesc struct {
	StmtKind string `json:"statement_kind"`
	Feature  string `json:"feature"` // comparison operator / assignment feature
	From     string `json:"from,omitempty"`
	Left     string `json:"left,omitempty"`
	Right    string `json:"right,omitempty"`
	Ctx      string `json:"context,omitempty"`
	// column reference keys ("col", "qualifier.col"; raw identifier bytes as the tree holds them)
	Search []string `json:"searchable_refs,omitempty"`
	Token  []string `json:"consistent_token_refs,omitempty"`
	Prot   []string `json:"protected_refs,omitempty"`
	// INSERT ... VALUES: value position j holds a protected column
	ProtPos []bool `json:"protected_value_positions,omitempty"`
	// UPDATE SET / ON DUPLICATE KEY UPDATE / ON CONFLICT DO UPDATE: protected assignment targets
	Assign []string `json:"protected_assignment_targets,omitempty"`
	// classes of the operands, for observation classes and finding keys
	LClass string `json:"left_class,omitempty"`
	RClass string `json:"right_class,omitempty"`
}

func (d *obsDesc) has(list []string, key string) bool {
	for _, k := range list {
		if k == key {
			return true
		}
	}
	return false
}

// ---------------------------------------------------------------------------------------
// dialect spelling

type obsSpell struct {
	pg, ansi bool
}

func curSpell() obsSpell {
	return obsSpell{pg: sqlgen.IsPG(), ansi: sqlgen.Current == sqlgen.MySQLANSI}
}

// q quotes an identifier the dialect's way (embedded quote characters doubled).
func (s obsSpell) q(id string) string {
	if s.pg || s.ansi {
		return `"` + strings.ReplaceAll(id, `"`, `""`) + `"`
	}
	return "`" + strings.ReplaceAll(id, "`", "``") + "`"
}

func (s obsSpell) placeholder() string {
	if s.pg {
		return "$1"
	}
	return "?"
}

func (s obsSpell) hexLit() string {
	if s.pg {
		return `'\x616263'`
	}
	return "X'616263'"
}

// foldKey: how an unquoted identifier is held by the tree of the dialect's parser.
func (s obsSpell) foldKey(id string) string {
	if s.pg {
		return strings.ToLower(id)
	}
	return id
}

// ---------------------------------------------------------------------------------------
// FROM variants

type obsFrom struct {
	Name   string
	Q1, Q2 string // qualifier text of t1 / t2 columns
	K1, K2 string // qualifier as the tree holds it
	Single string // FROM of one-table statements
	Join   string // "<t1> join <t2>"
	Comma  string // "<t1>, <t2>"
}

func obsFroms(s obsSpell, thorough bool) []obsFrom {
	out := []obsFrom{
		{Name: "plain", Q1: "t1", Q2: "t2", K1: "t1", K2: "t2", Single: "t1", Join: "t1 join t2", Comma: "t1, t2"},
		{Name: "aliased", Q1: "a", Q2: "b", K1: "a", K2: "b", Single: "t1 as a", Join: "t1 as a join t2 as b", Comma: "t1 as a, t2 as b"},
	}
	// an alias that needs its quotes: upper-case letter, space
	h1, h2 := "A b", "C.d"
	out = append(out, obsFrom{Name: "quoted-alias", Q1: s.q(h1), Q2: s.q(h2), K1: h1, K2: h2,
		Single: "t1 as " + s.q(h1), Join: "t1 as " + s.q(h1) + " join t2 as " + s.q(h2), Comma: "t1 as " + s.q(h1) + ", t2 as " + s.q(h2)})
	if thorough {
		out = append(out, obsFrom{Name: "db-qualified", Q1: "t1", Q2: "t2", K1: "t1", K2: "t2", Single: "db.t1", Join: "db.t1 join db.t2", Comma: "db.t1, db.t2"})
	}
	return out
}

// ---------------------------------------------------------------------------------------
// operands

type obsOperand struct {
	Name  string
	Text  string
	Kind  string // col | lit | placeholder | null | expr
	Key   string // col: reference key
	Class string // col: column class
}

// right sides left to the thorough tier in the bounded parts of the quick enumeration
var obsRightThoroughOnly = map[string]bool{"string-with-quote": true, "negative-integer": true, "function-of-string": true, "sum": true,
	"sub-select": true, "same-column": true, "double-quoted": true, "cast-placeholder": true, "other-table-acrastruct-column": true}

func colOperand(name, text, key, table, col string) obsOperand {
	return obsOperand{Name: name, Text: text, Kind: "col", Key: key, Class: obsClassOf(table, col)}
}

// obsLefts: the left sides. join=false: only t1 is in scope; join=true: t1 and t2.
func obsLefts(s obsSpell, f obsFrom, join bool) []obsOperand {
	q1, q2, k1, k2 := f.Q1, f.Q2, f.K1, f.K2
	if !join {
		out := []obsOperand{
			colOperand("searchable-acrablock", "sb1", "sb1", "t1", "sb1"),
			colOperand("searchable-acrastruct", "ss1", "ss1", "t1", "ss1"),
			colOperand("encrypted", "e1", "e1", "t1", "e1"),
			colOperand("tokenized", "k1", "k1", "t1", "k1"),
			colOperand("masked", "m1", "m1", "t1", "m1"),
			colOperand("typed", "y1", "y1", "t1", "y1"),
			colOperand("plain", "p1", "p1", "t1", "p1"),
			colOperand("plain-int", "id1", "id1", "t1", "id1"),
			colOperand("searchable-shared-name", "d", "d", "t1", "d"),
			colOperand("qualified-searchable", q1+".sb1", k1+".sb1", "t1", "sb1"),
			colOperand("qualified-plain", q1+".p1", k1+".p1", "t1", "p1"),
			colOperand("quoted-searchable", s.q("sb1"), "sb1", "t1", "sb1"),
			colOperand("upper-case-searchable", "SB1", s.foldKey("SB1"), "t1", "sb1"),
			// the client itself wrote the form the rewrite produces
			{Name: "substr-of-searchable", Text: "substr(sb1, 1, 33)", Kind: "col", Key: "sb1", Class: obsClassOf("t1", "sb1")},
		}
		return out
	}
	return []obsOperand{
		colOperand("t1-searchable-acrablock", q1+".sb1", k1+".sb1", "t1", "sb1"),
		colOperand("t1-searchable-acrastruct", q1+".ss1", k1+".ss1", "t1", "ss1"),
		colOperand("t2-searchable-acrablock", q2+".sb2", k2+".sb2", "t2", "sb2"),
		colOperand("t1-encrypted", q1+".e1", k1+".e1", "t1", "e1"),
		colOperand("t1-tokenized", q1+".k1", k1+".k1", "t1", "k1"),
		colOperand("t2-tokenized-int", q2+".k2", k2+".k2", "t2", "k2"),
		colOperand("t1-masked", q1+".m1", k1+".m1", "t1", "m1"),
		colOperand("t1-plain", q1+".p1", k1+".p1", "t1", "p1"),
		colOperand("t1-shared-name-searchable", q1+".d", k1+".d", "t1", "d"),
		colOperand("t2-shared-name-plain", q2+".d", k2+".d", "t2", "d"),
		colOperand("unqualified-t1-searchable", "sb1", "sb1", "t1", "sb1"),
		colOperand("unqualified-t2-searchable", "ss2", "ss2", "t2", "ss2"),
	}
}

// obsRights: the right sides for a given left side.
func obsRights(s obsSpell, f obsFrom, join bool, l obsOperand) []obsOperand {
	lit := func(name, text string) obsOperand { return obsOperand{Name: name, Text: text, Kind: "lit"} }
	out := []obsOperand{
		lit("string", "'abc'"),
		lit("string-with-quote", "'it''s'"),
		lit("empty-string", "''"),
		lit("hex-string", s.hexLit()),
		lit("hex-number", "0x616263"),
		lit("integer", "5"),
		lit("negative-integer", "-5"),
		// a literal kind the search observers do not substitute (they look at the comparison,
		// may normalise it, and leave it)
		lit("float", "1.5"),
		{Name: "placeholder", Text: s.placeholder(), Kind: "placeholder"},
		{Name: "null", Text: "null", Kind: "null"},
		{Name: "paren-string", Text: "('abc')", Kind: "expr"},
		{Name: "function-of-string", Text: "lower('abc')", Kind: "expr"},
		{Name: "sum", Text: "5 + 1", Kind: "expr"},
		{Name: "sub-select", Text: "(select max(p2) from t2)", Kind: "expr"},
	}
	if s.pg {
		out = append(out,
			obsOperand{Name: "cast-text", Text: "'abc'::text", Kind: "lit"},
			obsOperand{Name: "cast-bytea", Text: `'\x616263'::bytea`, Kind: "lit"},
			obsOperand{Name: "escape-string", Text: `E'ab\\143'`, Kind: "lit"},
			obsOperand{Name: "cast-placeholder", Text: "$1::text", Kind: "placeholder"})
	} else {
		out = append(out,
			obsOperand{Name: "underscore-binary-string", Text: "_binary 'abc'", Kind: "expr"},
			obsOperand{Name: "double-quoted", Text: `"abc"`, Kind: "lit"}) // a string in MySQL, an identifier in ANSI mode
	}
	if !join {
		other, plain := "ss1", "p1"
		if l.Key == "ss1" {
			other = "sb1"
		}
		if l.Key == "p1" {
			plain = "id1"
		}
		out = append(out,
			colOperand("other-searchable-column", other, other, "t1", other),
			colOperand("plain-column", plain, plain, "t1", plain),
			colOperand("tokenized-column", "k1", "k1", "t1", "k1"),
			obsOperand{Name: "same-column", Text: l.Text, Kind: "col", Key: l.Key, Class: l.Class})
		// same-column is a column reference only for the plain column texts
		if l.Name == "substr-of-searchable" {
			out = out[:len(out)-1]
		}
	} else {
		q1, q2, k1, k2 := f.Q1, f.Q2, f.K1, f.K2
		if strings.HasPrefix(l.Name, "t2-") || l.Name == "unqualified-t2-searchable" {
			out = append(out,
				colOperand("other-table-searchable-column", q1+".sb1", k1+".sb1", "t1", "sb1"),
				colOperand("other-table-plain-column", q1+".p1", k1+".p1", "t1", "p1"),
				colOperand("other-table-tokenized-column", q1+".k1", k1+".k1", "t1", "k1"))
		} else {
			out = append(out,
				colOperand("other-table-searchable-column", q2+".sb2", k2+".sb2", "t2", "sb2"),
				colOperand("other-table-acrastruct-column", q2+".ss2", k2+".ss2", "t2", "ss2"),
				colOperand("other-table-plain-column", q2+".p2", k2+".p2", "t2", "p2"),
				colOperand("other-table-tokenized-column", q2+".k2", k2+".k2", "t2", "k2"),
				colOperand("other-table-shared-name-plain", q2+".d", k2+".d", "t2", "d"))
		}
	}
	return out
}

// ---------------------------------------------------------------------------------------
// operators: every comparison form of the two grammars (a text the dialect's parser rejects
// is outside the space). %L / %R are the operands.

type obsOp struct {
	Name  string
	Tmpl  string
	Unary bool // no right operand
}

func obsOps() []obsOp {
	return []obsOp{
		{"eq", "%L = %R", false}, {"ne", "%L != %R", false}, {"ne-ltgt", "%L <> %R", false},
		{"lt", "%L < %R", false}, {"gt", "%L > %R", false}, {"le", "%L <= %R", false}, {"ge", "%L >= %R", false},
		{"null-safe-eq", "%L <=> %R", false},
		{"like", "%L like %R", false}, {"not-like", "%L not like %R", false},
		{"ilike", "%L ilike %R", false}, {"not-ilike", "%L not ilike %R", false},
		{"like-escape", "%L like %R escape '!'", false},
		{"regexp", "%L regexp %R", false}, {"not-regexp", "%L not regexp %R", false}, {"rlike", "%L rlike %R", false},
		{"pg-regex", "%L ~ %R", false}, {"pg-regex-ci", "%L ~* %R", false}, {"pg-not-regex", "%L !~ %R", false},
		{"similar-to", "%L similar to %R", false},
		{"is-distinct-from", "%L is distinct from %R", false}, {"is-not-distinct-from", "%L is not distinct from %R", false},
		{"in", "%L in (%R)", false}, {"in-two", "%L in (%R, 'zz')", false}, {"not-in", "%L not in (%R)", false},
		{"eq-any", "%L = any (array[%R])", false},
		{"between", "%L between %R and 'zz'", false}, {"not-between", "%L not between %R and 'zz'", false},
		{"nullif", "nullif(%L, %R) is null", false},
		{"is-null", "%L is null", true}, {"is-not-null", "%L is not null", true},
	}
}

func (o obsOp) apply(l, r string) string {
	return strings.ReplaceAll(strings.ReplaceAll(o.Tmpl, "%L", l), "%R", r)
}

// ---------------------------------------------------------------------------------------
// contexts around the comparison C. P, P2 are conditions on unprotected columns, SUB(x) a
// sub-select with condition x over the statement's own tables, C2 a second searchable
// comparison.

type obsCtx struct {
	Name string
	Tmpl string // %C comparison, %P, %Q plain conditions, %S{...} handled by name
	Swap bool   // operands exchanged (constant on the left, column on the right)
}

func obsCtxs() []obsCtx {
	return []obsCtx{
		{Name: "alone", Tmpl: "%C"},
		{Name: "and-plain", Tmpl: "%C and %P"},
		{Name: "plain-and", Tmpl: "%P and %C"},
		{Name: "or-plain", Tmpl: "%C or %P"},
		{Name: "not", Tmpl: "not (%C)"},
		{Name: "not-no-paren", Tmpl: "not %C"},
		{Name: "paren", Tmpl: "(%C)"},
		{Name: "or-and-precedence", Tmpl: "%C or %P and %Q"},
		{Name: "paren-or-and", Tmpl: "(%C or %P) and %Q"},
		{Name: "and-or-precedence", Tmpl: "%P and %C or %Q"},
		{Name: "in-sub-select", Tmpl: "%SUB"},
		{Name: "order-by-limit", Tmpl: "%C order by %ID limit 1"},
		{Name: "operands-exchanged", Tmpl: "%C", Swap: true},
		{Name: "operands-exchanged-and-plain-constant-left", Tmpl: "%C and 7 < %ID", Swap: true},
		{Name: "plain-constant-left-and", Tmpl: "7 >= %ID and %C"},
		{Name: "two-searchable", Tmpl: "%C and %C2"},
		{Name: "is-true", Tmpl: "(%C) is true"},
		{Name: "case-when", Tmpl: "case when %C then 1 else 0 end = 1"},
	}
}

// ---------------------------------------------------------------------------------------
// statement kinds hosting a condition

type obsKind struct {
	Name string
	Join bool
	// Assign: the protected columns the statement itself assigns a literal to (the keys of the
	// assignment targets as the tree holds them): a later observer of the chain substitutes
	// these values and so re-serialises the whole statement, comparison included.
	Assign []string
	// Multi: a kind of the "several configured columns with different settings in one
	// statement" family (obsMultiKinds): the statement writes protected columns AND hosts the
	// comparison, so that what an earlier observer of the chain did to the comparison before
	// it declined to rewrite it is carried - or not - into the text a later observer sends.
	// Enumerated over every operator with the operands as written and exchanged (enumerateOp).
	Multi bool
	// Narrow: the kind is enumerated in the sections A and X only (obsRuleQuick / obsRuleThorough)
	Narrow bool
	// pre(f) + condition; sub(f, cond) = a sub-select with the condition over the same tables
	Pre func(f obsFrom) string
	Sub func(f obsFrom, cond string) string
}

func obsKinds(thorough bool) []obsKind {
	idOf := func(f obsFrom, join bool) string {
		if join {
			return f.Q1 + ".id1"
		}
		return "id1"
	}
	single := func(f obsFrom, cond string) string {
		return "id1 in (select id1 from " + f.Single + " where " + cond + ")"
	}
	kinds := []obsKind{
		{Name: "select-where", Pre: func(f obsFrom) string { return "select id1, p1 from " + f.Single + " where " }, Sub: single},
		{Name: "select-join-on", Join: true, Pre: func(f obsFrom) string { return "select " + idOf(f, true) + " from " + f.Join + " on " },
			Sub: func(f obsFrom, cond string) string {
				return idOf(f, true) + " in (select " + idOf(f, true) + " from " + f.Join + " on " + cond + ")"
			}},
		{Name: "select-two-tables-where", Join: true, Pre: func(f obsFrom) string { return "select " + idOf(f, true) + " from " + f.Comma + " where " },
			Sub: func(f obsFrom, cond string) string {
				return idOf(f, true) + " in (select " + idOf(f, true) + " from " + f.Comma + " where " + cond + ")"
			}},
		{Name: "update-where", Pre: func(f obsFrom) string { return "update " + f.Single + " set p1 = 'n' where " }, Sub: single},
		{Name: "update-protected-set-where", Assign: []string{"e1"}, Multi: true,
			Pre: func(f obsFrom) string { return "update " + f.Single + " set e1 = 'new', p1 = 'n' where " }, Sub: single},
		{Name: "delete-where", Pre: func(f obsFrom) string { return "delete from " + f.Single + " where " }, Sub: single},
		{Name: "insert-select-where", Pre: func(f obsFrom) string { return "insert into t2 (id2, p2) select id1, p1 from " + f.Single + " where " }, Sub: single},
		{Name: "select-having", Pre: func(f obsFrom) string { return "select id1 from " + f.Single + " group by id1 having " }, Sub: single},
	}
	return append(kinds, obsMultiKinds(thorough, single)...)
}

// obsMultiKinds: UPDATE statements that assign literals to protected columns of other classes
// than the compared column - one kind per class of assigned column (the observer that
// substitutes the assigned value, and with it the place in the chain from which the statement
// is re-serialised, depends on the class) and one kind that assigns to a column of every
// protected class at once. Quick: the tokenized target and all classes at once (the encrypted
// target is the kind update-protected-set-where above); thorough: every class of obsTargets.
func obsMultiKinds(thorough bool, single func(f obsFrom, cond string) string) []obsKind {
	var out []obsKind
	one := func(label, col string) {
		out = append(out, obsKind{Name: "update-" + label + "-set-where", Assign: []string{col}, Multi: true, Narrow: true,
			Pre: func(f obsFrom) string { return "update " + f.Single + " set " + col + " = 'new', p1 = 'n' where " }, Sub: single})
	}
	one("tokenized", "k1")
	if thorough {
		one("searchable", "sb1")
		one("searchable-acrastruct", "ss1")
		one("masked", "m1")
		one("typed", "y1")
		one("searchable-default-envelope", "d")
	}
	var all, sets []string
	for _, c := range obsTargets {
		if isProtectedClass(obsClassOf("t1", c)) {
			all = append(all, c)
			sets = append(sets, c+" = 'n"+c+"'")
		}
	}
	pre := "set " + strings.Join(sets, ", ") + ", p1 = 'n' where "
	out = append(out, obsKind{Name: "update-every-protected-class-set-where", Assign: all, Multi: true, Narrow: true,
		Pre: func(f obsFrom) string { return "update " + f.Single + " " + pre }, Sub: single})
	return out
}

// buildCmp assembles one comparison statement and its description.
func buildCmp(s obsSpell, k obsKind, f obsFrom, l, r obsOperand, op obsOp, cx obsCtx) (string, *obsDesc) {
	lt, rt := l.Text, r.Text
	var c string
	if cx.Swap {
		c = op.apply(rt, lt)
	} else {
		c = op.apply(lt, rt)
	}
	p1, id := "p1", "id1"
	if k.Join {
		p1, id = f.Q1+".p1", f.Q1+".id1"
	}
	P, Q := p1+" = 'q'", p1+" <> 'r'"
	c2l := "ss1"
	if k.Join {
		c2l = f.Q1 + ".ss1"
	}
	C2 := c2l + " = 'zz'"
	cond := cx.Tmpl
	if cond == "%SUB" {
		cond = k.Sub(f, c)
	} else {
		cond = strings.ReplaceAll(cond, "%C2", C2)
		cond = strings.ReplaceAll(cond, "%C", c)
		cond = strings.ReplaceAll(cond, "%P", P)
		cond = strings.ReplaceAll(cond, "%Q", Q)
		cond = strings.ReplaceAll(cond, "%ID", id)
	}
	d := &obsDesc{StmtKind: k.Name, Feature: op.Name, From: f.Name, Left: l.Name, Right: r.Name, Ctx: cx.Name, LClass: l.Class, RClass: r.Kind}
	if r.Kind == "col" {
		d.RClass = "col:" + r.Class
	}
	if op.Unary {
		d.Right, d.RClass = "", ""
	}
	addRef := func(o obsOperand) {
		if o.Kind != "col" {
			return
		}
		if isSearchableClass(o.Class) && !d.has(d.Search, o.Key) {
			d.Search = append(d.Search, o.Key)
		}
		if isTokenClass(o.Class) && !d.has(d.Token, o.Key) {
			d.Token = append(d.Token, o.Key)
		}
		if isProtectedClass(o.Class) && !d.has(d.Prot, o.Key) {
			d.Prot = append(d.Prot, o.Key)
		}
	}
	addRef(l)
	if !op.Unary {
		addRef(r)
	}
	if strings.Contains(cx.Tmpl, "%C2") {
		key := "ss1"
		if k.Join {
			key = f.K1 + ".ss1"
		}
		addRef(obsOperand{Kind: "col", Key: key, Class: clsSearchStr})
	}
	if len(k.Assign) > 0 {
		d.Assign = append([]string(nil), k.Assign...)
	}
	return k.Pre(f) + cond, d
}

// ---------------------------------------------------------------------------------------
// INSERT ... VALUES / UPDATE SET statements: literals assigned to protected columns

type obsValue struct {
	Name string
	Text string
}

func obsValues(s obsSpell) []obsValue {
	out := []obsValue{
		{"string", "'abc'"}, {"string-with-quote", "'it''s'"}, {"empty-string", "''"}, {"hex-string", s.hexLit()},
		{"hex-number", "0x616263"}, {"integer", "5"}, {"negative-integer", "-5"}, {"placeholder", s.placeholder()},
		{"null", "null"}, {"default", "default"}, {"paren-string", "('abc')"}, {"function-of-string", "lower('abc')"},
		{"concat", "'ab' || 'c'"}, {"column", "p1"},
	}
	if s.pg {
		out = append(out, obsValue{"cast-text", "'abc'::text"}, obsValue{"cast-bytea", `'\x616263'::bytea`}, obsValue{"escape-string", `E'ab\\143'`},
			obsValue{"cast-placeholder", "$1::bytea"})
	} else {
		out = append(out, obsValue{"underscore-binary-string", "_binary 'abc'"}, obsValue{"double-quoted", `"abc"`})
	}
	return out
}

// protected target columns of t1, one per class
var obsTargets = []string{"sb1", "ss1", "e1", "k1", "m1", "y1", "d", "p1"}

type obsAssign struct {
	SQL  string
	Desc *obsDesc
}

// obsAssignStatements enumerates: INSERT (column-list variant x feature x target column x
// value form), UPDATE (target spelling x feature x target column x value form).
func obsAssignStatements(s obsSpell, thorough bool) []obsAssign {
	var out []obsAssign
	vals := obsValues(s)
	t1 := obsTables[0]
	isProt := func(col string) bool { return isProtectedClass(obsClassOf("t1", col)) }

	// ---- INSERT
	type feature struct {
		Name      string
		Head      string // "insert into", "replace into", ...
		Tail      string // after the VALUES rows; %T = target column, %V = value
		AssignTgt bool   // the tail assigns %V to %T
	}
	features := []feature{
		{Name: "plain", Head: "insert into"},
		{Name: "returning-columns", Head: "insert into", Tail: " returning id1, %T"},
		{Name: "returning-star", Head: "insert into", Tail: " returning *"},
		{Name: "on-duplicate-key-update", Head: "insert into", Tail: " on duplicate key update %T = %V, p1 = 'z'", AssignTgt: true},
		{Name: "on-duplicate-key-update-values-func", Head: "insert into", Tail: " on duplicate key update %T = values(%T), id1 = id1 + 1"},
		{Name: "on-conflict-do-update", Head: "insert into", Tail: " on conflict (id1) do update set %T = %V, p1 = 'z' where t1.id1 > 0", AssignTgt: true},
		{Name: "on-conflict-do-nothing-returning", Head: "insert into", Tail: " on conflict do nothing returning %T as x"},
		{Name: "replace", Head: "replace into"},
		{Name: "insert-ignore", Head: "insert ignore into"},
	}
	type collist struct {
		Name string
		// returns the column list text ("" = none), the column order and the index of the target
		Make func(target string) (string, []string)
	}
	allCols := func() []string {
		var c []string
		for _, x := range t1.Cols {
			c = append(c, x.Name)
		}
		return c
	}
	lists := []collist{
		{"target-and-plain", func(t string) (string, []string) {
			if t == "p1" {
				return "(id1, p1)", []string{"id1", "p1"}
			}
			return "(id1, " + t + ", p1)", []string{"id1", t, "p1"}
		}},
		{"target-first-quoted", func(t string) (string, []string) {
			if t == "p1" {
				return "(" + s.q("p1") + ", id1)", []string{"p1", "id1"}
			}
			return "(" + s.q(t) + ", p1, id1)", []string{t, "p1", "id1"}
		}},
		{"no-column-list", func(t string) (string, []string) { return "", allCols() }},
		{"all-columns-reordered", func(t string) (string, []string) {
			c := allCols()
			for i, j := 0, len(c)-1; i < j; i, j = i+1, j-1 {
				c[i], c[j] = c[j], c[i]
			}
			return "(" + strings.Join(c, ", ") + ")", c
		}},
	}
	rowsKinds := []string{"one-row", "two-rows", "row-too-long"}
	fill := func(col string) string {
		switch col {
		case "id1":
			return "1"
		case "p1":
			return "'pl'"
		}
		return "'f" + col + "'"
	}
	for _, ft := range features {
		for _, cl := range lists {
			for _, rk := range rowsKinds {
				if !thorough && rk != "one-row" && !(ft.Name == "plain" || ft.Name == "on-duplicate-key-update" || ft.Name == "returning-columns") {
					continue
				}
				for _, tgt := range obsTargets {
					for _, v := range vals {
						ctext, order := cl.Make(tgt)
						row := func(val string) string {
							parts := make([]string, len(order))
							for i, c := range order {
								if c == tgt {
									parts[i] = val
								} else {
									parts[i] = fill(c)
								}
							}
							return "(" + strings.Join(parts, ", ") + ")"
						}
						rows := row(v.Text)
						switch rk {
						case "two-rows":
							rows += ", " + row("'second'")
						case "row-too-long":
							rows = strings.TrimSuffix(rows, ")") + ", 'extra')"
						}
						tail := strings.ReplaceAll(strings.ReplaceAll(ft.Tail, "%T", tgt), "%V", v.Text)
						sql := ft.Head + " t1 " + ctext + " values " + rows + tail
						if ctext == "" {
							sql = ft.Head + " t1 values " + rows + tail
						}
						d := &obsDesc{StmtKind: "insert-values-" + rk, Feature: ft.Name, From: cl.Name, Left: tgt, Right: v.Name, LClass: obsClassOf("t1", tgt), RClass: "value"}
						for _, c := range order {
							d.ProtPos = append(d.ProtPos, isProt(c))
						}
						if ft.AssignTgt && isProt(tgt) {
							d.Assign = []string{tgt}
						}
						out = append(out, obsAssign{sql, d})
					}
				}
			}
		}
	}
	// MySQL: INSERT ... SET
	for _, tgt := range obsTargets {
		for _, v := range vals {
			d := &obsDesc{StmtKind: "insert-set", Feature: "plain", Left: tgt, Right: v.Name, LClass: obsClassOf("t1", tgt), RClass: "value"}
			d.ProtPos = []bool{false, isProt(tgt)}
			out = append(out, obsAssign{"insert into t1 set id1 = 1, " + tgt + " = " + v.Text, d})
		}
	}

	// ---- UPDATE
	type upd struct {
		Name string
		// %T target column, %V value
		Tmpl string
		Keys func(t string) []string // assignment-target keys of the protected target
	}
	bare := func(t string) []string { return []string{t} }
	upds := []upd{
		{"plain", "update t1 set %T = %V, p1 = 'n' where id1 = 1", bare},
		{"target-last", "update t1 set p1 = 'n', %T = %V where id1 = 1", bare},
		{"quoted-target", "update t1 set " + s.q("%T") + " = %V where id1 = 1", bare},
		{"table-qualified-target", "update t1 set t1.%T = %V where id1 = 1", func(t string) []string { return []string{"t1." + t} }},
		{"alias-qualified-target", "update t1 as a set a.%T = %V where a.id1 = 1", func(t string) []string { return []string{"a." + t} }},
		{"alias-unqualified-target", "update t1 as a set %T = %V where a.id1 = 1", bare},
		{"searchable-where", "update t1 set %T = %V where sb1 = 'k'", bare},
		{"returning-columns", "update t1 set %T = %V where id1 = 1 returning id1, %T", bare},
		{"returning-star", "update t1 set %T = %V where id1 = 1 returning *", bare},
		{"order-by-limit", "update t1 set %T = %V where id1 > 1 order by id1 desc limit 2", bare},
		{"from-other-table", "update t1 set %T = %V from t2 where t1.id1 = t2.id2 returning t1.id1", bare},
		{"two-tables", "update t1, t2 set t1.%T = %V, t2.p2 = 'n' where t1.id1 = t2.id2", func(t string) []string { return []string{"t1." + t} }},
		{"join", "update t1 join t2 on t1.id1 = t2.id2 set t1.%T = %V where t2.p2 = 'x'", func(t string) []string { return []string{"t1." + t} }},
		// the second assignment goes to the other table under an alias written with a capital letter; its
		// column shares its name with a protected column of t1 and is not protected itself
		{"join-capital-alias-shared-name", "update t1 join t2 as B on t1.id1 = B.id2 set t1.%T = %V, B.d = 'n' where B.p2 = 'x'", func(t string) []string { return []string{"t1." + t} }},
		{"same-target-twice", "update t1 set %T = %V, %T = 'again' where id1 = 1", bare},
	}
	for _, u := range upds {
		for _, tgt := range obsTargets {
			for _, v := range vals {
				sql := strings.ReplaceAll(strings.ReplaceAll(u.Tmpl, "%T", tgt), "%V", v.Text)
				d := &obsDesc{StmtKind: "update-set", Feature: u.Name, Left: tgt, Right: v.Name, LClass: obsClassOf("t1", tgt), RClass: "value"}
				if isProt(tgt) {
					d.Assign = u.Keys(tgt)
				}
				if u.Name == "searchable-where" {
					d.Search, d.Prot = []string{"sb1"}, []string{"sb1"}
				}
				out = append(out, obsAssign{sql, d})
			}
		}
	}
	return out
}

// ---------------------------------------------------------------------------------------
// enumeration of the comparison statements

type obsCmpSpace struct {
	kinds []obsKind
	froms []obsFrom
	ops   []obsOp
	ctxs  []obsCtx
	spell obsSpell
}

// obsRepPairs: the representative (left, right) pairs used where the product is bounded.
var obsRepPairs = map[bool][][2]string{
	false: {{"searchable-acrablock", "string"}, {"searchable-acrablock", "placeholder"}, {"searchable-acrablock", "other-searchable-column"},
		{"searchable-acrablock", "plain-column"}, {"tokenized", "string"}, {"plain", "string"},
		// an unprotected comparison whose right side is an expression, next to searchable conditions
		{"plain", "underscore-binary-string"},
		// a comparison the search observers look at (and may normalise) but rewrite only under the
		// equality operators, next to comparisons they do rewrite (contexts two-searchable, ...)
		{"searchable-acrablock", "underscore-binary-string"}, {"tokenized", "underscore-binary-string"}},
	true: {{"t1-searchable-acrablock", "string"}, {"t1-searchable-acrablock", "placeholder"}, {"t1-searchable-acrablock", "other-table-searchable-column"},
		{"t1-searchable-acrablock", "other-table-plain-column"}, {"t1-tokenized", "string"}, {"t2-shared-name-plain", "string"}},
}
var obsRepRight = map[bool][]string{
	false: {"string", "placeholder", "other-searchable-column", "plain-column"},
	true:  {"string", "placeholder", "other-table-searchable-column", "other-table-plain-column"},
}
var obsRepOps = []string{"eq", "ne", "lt", "like", "in", "is-null"}

func inList(l []string, x string) bool {
	for _, y := range l {
		if y == x {
			return true
		}
	}
	return false
}

func isRepPair(join bool, l, r string) bool {
	for _, p := range obsRepPairs[join] {
		if p[0] == l && p[1] == r {
			return true
		}
	}
	return false
}

// contexts of the narrow kinds in the thorough tier
var obsNarrowCtxsThorough = []string{"operands-exchanged", "in-sub-select", "two-searchable", "not", "and-plain", "paren"}

const obsRuleQuick = "A: every statement kind x FROM 'plain' x every left side x every operator x every right side (less the rarer spellings: " +
	"quote inside, negative integer, function call, sum, sub-select, same column, double-quoted, cast placeholder), context 'alone'; " +
	"A2: every kind x every other FROM variant x every left side x operators {=, !=, <, like, in, is null} x right sides {string, placeholder, other searchable column, plain column}, context 'alone'; " +
	"B: every kind x FROM 'plain' x 9 representative (left, right) pairs (searchable/string, searchable/placeholder, searchable/searchable column, searchable/plain column, tokenized/string, plain/string, plain/_binary string, searchable/_binary string, tokenized/_binary string) x every operator x every context; " +
	"C: every kind x FROM 'plain' x every left x every right (as in A) x operators {=, <, like} x contexts {operands exchanged, in sub-select}; " +
	"X (several configured columns with different settings in one statement, through the complete observer chain in its production order): the kinds that assign literals to protected columns and host the comparison in WHERE - UPDATE SET <column> = '<literal>' with the assigned column encrypted, with the assigned column consistently tokenized, and one UPDATE assigning to a column of every protected class at once (searchable acrablock/acrastruct/default envelope, encrypted, tokenized, masked, typed) - x FROM 'plain' x every left side x every operator x every right side (as in A) x the operands as written (this is A) and exchanged (value <op> column); the kinds added for X (tokenized, every class) are enumerated in A and X only; right sides now include a float literal (1.5), a literal kind the search observers look at and leave"
const obsRuleThorough = "A: every statement kind x every FROM variant x every left side x every operator x every right side, context 'alone'; " +
	"B: every kind x FROM 'plain' x every left side x every operator x every right side x every context (the full product for FROM 'plain'); " +
	"B2: every kind x every other FROM variant x 6 representative (left, right) pairs x every operator x every context; " +
	"X (several configured columns with different settings in one statement): UPDATE SET <column> = '<literal>' WHERE <comparison> with the assigned column of every protected class (encrypted: in the full product above; tokenized, searchable acrablock/acrastruct/default envelope, masked, typed) and one UPDATE assigning to a column of every protected class at once: every FROM variant x every left side x every operator x every right side, context 'alone', and for FROM 'plain' the contexts operands exchanged, in sub-select, two searchable, not, and-plain, paren"

// enumerateOp calls emit for every comparison statement of the tier's space that uses
// operator op (the rules above go to the evidence). The phase evaluates operator after
// operator in the order of obsOps (the equality family first), so a wall-budget cap leaves
// the space complete for the operators before the cut.
func (sp *obsCmpSpace) enumerateOp(thorough bool, op obsOp, emit func(sql string, d *obsDesc)) {
	s := sp.spell
	seen := map[string]bool{}
	put := func(k obsKind, f obsFrom, l, r obsOperand, cx obsCtx) {
		if op.Unary && r.Name != "string" {
			return
		}
		sql, d := buildCmp(s, k, f, l, r, op, cx)
		if seen[sql] {
			return
		}
		seen[sql] = true
		emit(sql, d)
	}
	for _, f := range sp.froms {
		plain := f.Name == "plain"
		for _, k := range sp.kinds {
			for _, l := range obsLefts(s, f, k.Join) {
				for _, r := range obsRights(s, f, k.Join, l) {
					rep := isRepPair(k.Join, l.Name, r.Name)
					if thorough {
						put(k, f, l, r, sp.ctxs[0])
						if k.Narrow {
							if plain { // X
								for _, cx := range sp.ctxs[1:] {
									if inList(obsNarrowCtxsThorough, cx.Name) {
										put(k, f, l, r, cx)
									}
								}
							}
							continue
						}
						if plain || rep {
							for _, cx := range sp.ctxs[1:] {
								put(k, f, l, r, cx)
							}
						}
						continue
					}
					rare := obsRightThoroughOnly[r.Name]
					if plain && !rare { // A
						put(k, f, l, r, sp.ctxs[0])
					}
					if plain && !rare && k.Multi { // X
						for _, cx := range sp.ctxs {
							if cx.Name == "operands-exchanged" {
								put(k, f, l, r, cx)
							}
						}
					}
					if k.Narrow {
						continue
					}
					if !plain && inList(obsRepRight[k.Join], r.Name) && inList(obsRepOps, op.Name) { // A2
						put(k, f, l, r, sp.ctxs[0])
					}
					if !plain {
						continue
					}
					if rep { // B
						for _, cx := range sp.ctxs[1:] {
							put(k, f, l, r, cx)
						}
					}
					if !rare && (op.Name == "eq" || op.Name == "lt" || op.Name == "like") { // C
						for _, cx := range sp.ctxs {
							if cx.Name == "operands-exchanged" || cx.Name == "in-sub-select" {
								put(k, f, l, r, cx)
							}
						}
					}
				}
			}
		}
	}
}

func newObsCmpSpace(thorough bool) *obsCmpSpace {
	s := curSpell()
	return &obsCmpSpace{kinds: obsKinds(thorough), froms: obsFroms(s, thorough), ops: obsOps(), ctxs: obsCtxs(), spell: s}
}

func (sp *obsCmpSpace) dims() map[string]int {
	f := sp.froms[0]
	return map[string]int{
		"statement_kinds": len(sp.kinds), "from_variants": len(sp.froms), "operators": len(sp.ops), "contexts": len(sp.ctxs),
		"left_sides_one_table": len(obsLefts(sp.spell, f, false)), "left_sides_two_tables": len(obsLefts(sp.spell, f, true)),
		"right_sides_one_table":  len(obsRights(sp.spell, f, false, obsLefts(sp.spell, f, false)[0])),
		"right_sides_two_tables": len(obsRights(sp.spell, f, true, obsLefts(sp.spell, f, true)[0])),
	}
}

var _ = fmt.Sprintf
